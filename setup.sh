#!/bin/sh
# Offline setup: put icontract beside the repository's interpreter (idempotent).
# Nothing is fetched: the wheelhouse under /opt/veriftools/wheels is all there is.
set -e
cd "$(dirname "$0")"
if [ ! -d .deps/icontract ]; then
  PIP_NO_INDEX=1 /venv/bin/pip install --quiet --no-index \
      --find-links /opt/veriftools/wheels --target .deps icontract >/dev/null 2>&1 || \
  echo "setup: icontract not installable; plain-wrapper fallback will be used" >&2
fi
mkdir -p evidence evidence/replay
exit 0
