"""First-hit line coverage of mosromgr/* via sys.monitoring (3.12+), used only
as evidence of reach: which raise / warn sites and merge bodies the workload
actually drove.  Each line callback returns DISABLE, so the cost is one
callback per distinct line."""
import os
import re
import sys

HIT = set()
_STATE = {'on': False, 'root': None}


def start(root):
    mon = getattr(sys, 'monitoring', None)
    if mon is None or _STATE['on']:
        return False
    root = os.path.realpath(root) + os.sep
    _STATE['root'] = root
    tool = mon.COVERAGE_ID
    try:
        mon.use_tool_id(tool, 'verif-cov')
    except ValueError:
        return False

    def on_line(code, line):
        fn = code.co_filename
        if fn.startswith(root):
            HIT.add((fn[len(root):], line))
        return mon.DISABLE

    mon.register_callback(tool, mon.events.LINE, on_line)
    mon.set_events(tool, mon.events.LINE)
    _STATE['on'] = True
    return True


def sites(root):
    """All `raise` and `warnings.warn` sites in mosromgr/*.py: {(file, line): text}."""
    out = {}
    base = os.path.join(os.path.realpath(root), 'mosromgr')
    for dp, dn, fns in os.walk(base):
        for fn in fns:
            if not fn.endswith('.py'):
                continue
            p = os.path.join(dp, fn)
            rel = os.path.relpath(p, os.path.realpath(root))
            try:
                lines = open(p, encoding='utf-8').read().splitlines()
            except OSError:
                continue
            for i, ln in enumerate(lines, 1):
                s = ln.strip()
                if re.match(r'raise\b', s) or 'warnings.warn(' in s:
                    out[(rel, i)] = s[:80]
    return out


def report(root):
    st = sites(root)
    hit = {k for k in st if k in HIT}
    return {
        'lines_hit': len(HIT),
        'sites_total': len(st),
        'sites_hit': sorted('%s:%d' % k for k in hit),
        'sites_not_hit': sorted('%s:%d %s' % (k[0], k[1], st[k]) for k in st if k not in hit),
    }
