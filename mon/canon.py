"""Canonical forms and abstraction of MOS documents.

Deliberately imports nothing from mosromgr: everything here reads the XML text
(or an ElementTree parsed from it) directly, so the oracles built on it are
independent of the code they judge.
"""
from xml.etree import ElementTree as ET

MESSAGE_TAGS = (
    'roCreate', 'roStorySend', 'roStoryAppend', 'roStoryDelete', 'roStoryInsert',
    'roStoryMove', 'roStoryReplace', 'roItemDelete', 'roItemInsert',
    'roItemMoveMultiple', 'roItemReplace', 'roReplace', 'roMetadataReplace',
    'roReadyToAir', 'roDelete', 'roElementAction',
)


def _ws(s):
    return s is None or s.strip() == ''


def canon(e, _top=True, _parent_mixed=False):
    """Canonical, hashable form of an element.

    Whitespace-only tails are dropped (moving or inserting a node in
    pretty-printed XML legitimately moves indentation); non-blank tails are
    mixed content and are kept.  The tail of the element being compared itself
    is ignored (it belongs to its position, not to its content).  The text of
    an element that has children is dropped when it is whitespace-only
    (indentation); text of leaf elements is always kept verbatim.
    """
    text = e.text
    if text is None:
        text = ''
    # element-only content: no character data of its own and none between its
    # children -> the white space in there is indentation.  In MIXED content
    # (some non-blank text or tail among the children) white space is content
    # ("evening</b><i>and" is not "evening</b>\n  <i>and") and is kept verbatim.
    mixed = bool(text.strip()) or any((c.tail or '').strip() for c in e)
    kids = tuple(canon(c, False, mixed) for c in e)
    if kids and not mixed:
        text = ''
    tail = ''
    if not _top:
        tail = e.tail or ''
        if tail.strip() == '' and not _parent_mixed:
            tail = ''
    return (e.tag, tuple(sorted(e.attrib.items())), text, kids, tail)


def retag(c, tag):
    return (tag,) + tuple(c[1:])


def text_of(e, tag):
    """Text of the first direct child `tag` of e: (present, text|None)."""
    if e is None:
        return (False, None)
    c = e.find(tag)
    if c is None:
        return (False, None)
    return (True, c.text)


def sid(story):
    return text_of(story, 'storyID')[1]


def iid(item):
    return text_of(item, 'itemID')[1]


class Abs:
    """Abstraction of a running-order document (parsed from text)."""

    def __init__(self, xml_text=None, root=None):
        self.root = ET.fromstring(xml_text) if root is None else root
        r = self.root
        self.root_sig = (r.tag, tuple(sorted(r.attrib.items())))
        self.rcs = [c for c in r if c.tag == 'roCreate']
        self.rc = self.rcs[0] if self.rcs else None
        self.metas = [c for c in r if c.tag == 'mosromgrmeta']
        self.envelope = [canon(c) for c in r if c.tag not in ('roCreate', 'mosromgrmeta')]
        self.completed = bool(self.metas)
        rc = self.rc
        self.rc_sig = None if rc is None else (rc.tag, tuple(sorted(rc.attrib.items())))
        self.entries = [] if rc is None else list(rc)
        self.stories = [c for c in self.entries if c.tag == 'story']
        self.meta = [c for c in self.entries if c.tag != 'story']
        self.story_ids = [sid(s) for s in self.stories]
        self.story_canons = [canon(s) for s in self.stories]
        self.meta_canons = [canon(m) for m in self.meta]

    def unique_story_ids(self):
        ids = self.story_ids
        return len(set(ids)) == len(ids) and None not in ids

    def story(self, story_id):
        for s in self.stories:
            if sid(s) == story_id:
                return s
        return None

    def layout(self):
        """Layout class of metadata relative to stories: none/before/between/after/mixed."""
        pos = [c.tag == 'story' for c in self.entries]
        if not any(pos):
            return 'nostory'
        first = pos.index(True)
        last = len(pos) - 1 - pos[::-1].index(True)
        before = first > 0
        after = last < len(pos) - 1
        between = any(not p for p in pos[first:last + 1])
        return ''.join(x for x, f in (('b', before), ('m', between), ('a', after)) if f) or 'none'


def items_of(story):
    return [c for c in story if c.tag == 'item']


def nonitems_of(story):
    return [c for c in story if c.tag != 'item']


def item_ids(story):
    return [iid(i) for i in items_of(story)]


def story_sig_wo_items(story):
    """(tag, attrib, non-item children canons) of a story: everything an item
    message must leave alone inside the addressed story."""
    return (story.tag, tuple(sorted(story.attrib.items())),
            tuple(canon(c) for c in nonitems_of(story)))


def short(c, limit=160):
    """Readable short form of a canon for witnesses."""
    s = repr(c)
    return s if len(s) <= limit else s[:limit] + '...'
