"""Driver: fan a property's workload out over subprocess workers, aggregate
what the monitors observed, apply reach gates and known findings, write the
evidence file and decide the three-valued verdict.

exit 0 = held on everything observed; 1 = VIOLATION line(s) printed;
2 = INCONCLUSIVE (monitors lost their grip / deciding counters zero / watchdog).
"""
import argparse
import importlib
import json
import os
import subprocess
import sys
import tempfile
import time
from collections import Counter

HERE = os.path.dirname(os.path.dirname(os.path.abspath(__file__)))
PY = os.environ.get('VERIF_PYTHON', '/venv/bin/python')


def repo():
    return os.path.realpath(os.environ.get('VERIF_REPO', '/repo'))


def evdir():
    """Evidence directory: /verif/evidence, unless VERIF_EVIDENCE_DIR redirects it
    (used when the monitors are validated against scratch mutant copies, so that
    committed evidence always comes from /repo itself)."""
    return os.environ.get('VERIF_EVIDENCE_DIR') or os.path.join(HERE, 'evidence')


def worker_env(extra=None):
    env = dict(os.environ)
    env['PYTHONPATH'] = os.pathsep.join([repo(), HERE, os.path.join(HERE, '.deps')])
    env['BBC_MOSROMGR_VERIF'] = '1'
    env['PYTHONHASHSEED'] = '0'
    env['PYTHONDONTWRITEBYTECODE'] = '1'
    env['VERIF_REPO'] = repo()
    env.pop('PYTHONWARNINGS', None)
    if extra:
        env.update(extra)
    return env


# The host environment is a dimension of the workload like the logging mode: every fourth worker runs in the
# POSIX locale with UTF-8 mode off (the default text encoding of open() / read_text() / the file system is
# ASCII - cron jobs, minimal containers), every fourth in a time zone with daylight saving (given as a POSIX
# TZ rule, so that no zone database is needed), every fourth under python -bb.  stdin/stdout keep UTF-8 (PYTHONIOENCODING): what a terminal can
# show is not the library's business.  VERIF_HOSTENV=plain|clocale|dst forces one environment for all workers.
HOST_ENVS = {
    'plain': {},
    'clocale': {'LC_ALL': 'C', 'LANG': 'C', 'LANGUAGE': 'C', 'PYTHONUTF8': '0', 'PYTHONCOERCECLOCALE': '0',
                'PYTHONIOENCODING': 'utf-8'},
    'dst': {'TZ': 'GMT0BST,M3.5.0/1,M10.5.0/2'},
    # python -bb: comparing or formatting bytes as text is an error (a host that is strict about str / bytes)
    'bb': {'VERIF_PYFLAGS': '-bb'},
}


def host_env(wi):
    forced = os.environ.get('VERIF_HOSTENV')
    name = forced if forced in HOST_ENVS else ('plain', 'bb', 'clocale', 'dst')[wi % 4]
    return dict(HOST_ENVS[name], VERIF_HOSTENV_NAME=name)


def ensure_deps():
    if not os.path.isdir(os.path.join(HERE, '.deps', 'icontract')):
        subprocess.run([os.path.join(HERE, 'setup.sh')], cwd=HERE, check=False)


def spawn_workers(prop, tier, seed, nw, timeout, replay=None, pyflags=(), env_extra=None):
    tmpdir = tempfile.mkdtemp(prefix='verif-%s-' % prop)
    procs = []
    for wi in range(nw):
        out = os.path.join(tmpdir, 'w%d.json' % wi)
        henv = host_env(wi)
        cmd = [PY, '-B'] + list(pyflags) + henv.pop('VERIF_PYFLAGS', '').split() + ['-m', 'mon.worker', prop, tier, str(seed), str(wi), str(nw), out]
        if replay:
            cmd.append(replay)
        errf = open(os.path.join(tmpdir, 'w%d.err' % wi), 'w')
        p = subprocess.Popen(cmd, cwd=HERE, env=worker_env(dict(henv, **(env_extra or {}))), stdout=errf, stderr=errf)
        procs.append((p, out, errf))
    results, problems = [], []
    deadline = time.time() + timeout
    if os.environ.get('VERIF_STOP_ON_FIRST') == '1':
        # mutation-analysis mode (tools/*): one violation decides - as soon as one worker has written a result
        # that holds a violation, the others are stopped (their shares would only add more of the same)
        stopped = set()
        while time.time() < deadline and any(p.poll() is None for p, _o, _e in procs):
            hit = False
            for p, out, _e in procs:
                if p.poll() is not None and os.path.exists(out):
                    try:
                        hit = hit or bool(json.load(open(out)).get('violations'))
                    except ValueError:
                        pass
            if hit:
                for k_, (p, _o, _e) in enumerate(procs):
                    if p.poll() is None:
                        p.kill()
                        stopped.add(k_)
                break
            time.sleep(0.3)
        procs = [x for k_, x in enumerate(procs) if k_ not in stopped]
    for wi, (p, out, errf) in enumerate(procs):
        try:
            p.wait(timeout=max(1, deadline - time.time()))
        except subprocess.TimeoutExpired:
            p.kill()
            p.wait()
            problems.append('worker %d hit the wall-clock watchdog (%ds)' % (wi, timeout))
            continue
        finally:
            errf.close()
        if not os.path.exists(out):
            tail = open(errf.name).read()[-800:]
            problems.append('worker %d died (rc=%s): %s' % (wi, p.returncode, tail))
            continue
        try:
            r = json.load(open(out))
        except ValueError:
            problems.append('worker %d wrote unreadable output' % wi)
            continue
        if 'harness_error' in r:
            problems.append('worker %d harness error: %s' % (wi, r['harness_error'][-1500:]))
            if not r.get('violations'):
                continue
        results.append(r)
    # scratch cleanup
    for f in os.listdir(tmpdir):
        try:
            os.unlink(os.path.join(tmpdir, f))
        except OSError:
            pass
    try:
        os.rmdir(tmpdir)
    except OSError:
        pass
    return results, problems


def aggregate(results):
    agg = {'evaluations': 0, 'sigs': set(), 'all_sigs': 0, 'violations': {}, 'other': Counter(),
           'hist': Counter(), 'samples': [], 'ooc': Counter(), 'counts': Counter(),
           'acc_fail': [], 'inconclusive': [], 'notes': [], 'cov_lines': set(), 'workers': len(results),
           'debug_flags': set(), 'contracts': set(), 'attached': set()}
    for r in results:
        agg['evaluations'] += r['evaluations']
        agg['sigs'].update(r['sigs'])
        agg['all_sigs'] += r['all_sigs']
        for v in r['violations']:
            key = json.dumps(v['signature'], sort_keys=True)
            slot = agg['violations'].get(key)
            if slot is None:
                agg['violations'][key] = v
            else:
                slot['count'] += v['count']
        agg['other'].update(r['other'])
        agg['hist'].update(r['hist'])
        agg['ooc'].update(r['ooc'])
        agg['counts'].update(r['counts'])
        agg['acc_fail'].extend(r.get('acc_fail', [])[:10])
        for s in r['samples']:
            if len(agg['samples']) < 5:
                agg['samples'].append(s)
        agg['inconclusive'].extend(r['inconclusive'])
        agg['notes'].extend(r.get('notes', []))
        agg['cov_lines'].update(r.get('cov_lines', []))
        agg['debug_flags'].add(r.get('debug'))
        agg['contracts'].add(r.get('contracts'))
        agg['attached'].update(r.get('attach', {}).get('attached', []))
    return agg


def cov_summary(agg):
    from . import cov
    st = cov.sites(repo())
    hit = set(agg['cov_lines'])
    return {
        'mosromgr_lines_first_hit': len(hit),
        'raise_warn_sites_total': len(st),
        'raise_warn_sites_hit': sum(1 for k in st if '%s:%d' % k in hit),
        'raise_warn_sites_not_hit': sorted('%s:%d %s' % (k[0], k[1], st[k]) for k in st
                                           if '%s:%d' % k not in hit),
    }


def main(argv=None):
    ap = argparse.ArgumentParser()
    ap.add_argument('prop')
    ap.add_argument('--tier', default=None)
    ap.add_argument('--replay', default=None)
    ap.add_argument('--workers', type=int, default=None)
    a = ap.parse_args(argv)
    prop = a.prop.upper()
    tier = a.tier or os.environ.get('VERIF_TIER') or 'quick'
    if tier not in ('quick', 'thorough'):
        tier = 'quick'
    try:
        seed = int(os.environ.get('VERIF_SEED', '0'))
    except ValueError:
        seed = 0
    os.chdir(HERE)
    sys.path.insert(0, HERE)
    ensure_deps()
    t0 = time.time()
    mod = importlib.import_module('mon.props.' + prop.lower())
    meta = mod.META
    nw = a.workers or meta.get('workers', {}).get(tier, 12 if tier == 'thorough' else 8)
    timeout = meta.get('watchdog', {}).get(tier, 900 if tier == 'thorough' else 240)
    if a.replay:
        nw = 1

    results, problems = [], []
    configs = meta.get('configs', [{}])          # interpreter configurations (C08 -W error, C11 -O)
    for cfg in configs:
        if a.replay and cfg.get('skip_on_replay'):
            continue
        r, p = spawn_workers(prop, tier, seed, 1 if a.replay else cfg.get('workers', nw), timeout,
                             replay=os.path.abspath(a.replay) if a.replay else None,
                             pyflags=cfg.get('pyflags', ()),
                             env_extra=dict(cfg.get('env') or {}, VERIF_CFG=cfg.get('name', 'default')))
        for x in r:
            x.setdefault('hist', {})
            if cfg.get('name'):
                x['hist'] = {('%s|%s' % (cfg['name'], k) if k.startswith('cfg:') else k): v
                             for k, v in x['hist'].items()}
        results += r
        problems += ['[%s] %s' % (cfg.get('name', 'default'), q) for q in p]
    agg = aggregate(results)
    agg['inconclusive'].extend(problems)

    # known findings
    from . import known
    findings = known.load()
    fresh, matched = [], Counter()
    for key, v in sorted(agg['violations'].items()):
        fid = known.match(v, findings)
        if fid is not None:
            matched[fid] += v['count']
        else:
            fresh.append(v)

    # reach gates (deciding counters must be non-zero) - skipped on replay
    if not a.replay and hasattr(mod, 'gates'):
        agg['inconclusive'].extend(mod.gates(agg, tier))
    if not a.replay and agg['evaluations'] == 0:
        agg['inconclusive'].append('no case was evaluated')

    # write replay witnesses (stale ones of this property are removed first)
    os.makedirs(os.path.join(evdir(), 'replay'), exist_ok=True)
    if not a.replay:
        for fn in os.listdir(os.path.join(evdir(), 'replay')):
            if fn.startswith(prop + '-'):
                os.unlink(os.path.join(evdir(), 'replay', fn))
    lines = []
    for i, v in enumerate(fresh):
        path = os.path.join(os.path.relpath(evdir(), HERE), 'replay',
                            '%s-%s-%d.json' % (prop, v['signature'].get('dev', 'x'), i))
        with open(os.path.join(HERE, path), 'w') as f:
            json.dump({'property': prop, 'seed': seed, 'tier': tier, 'signature': v['signature'],
                       'detail': v['detail'], 'count': v['count'], 'witness': v['witness']}, f, indent=1)
        if i < 5:
            lines.append('VIOLATION property=%s replay=%s' % (prop, path))
            lines.append('  # %s x%d %s' % (json.dumps(v['signature']), v['count'],
                                           json.dumps(v['detail'], default=str)[:400]))

    n_viol = sum(v['count'] for v in fresh)
    wall = time.time() - t0
    if not a.replay:
        write_evidence(prop, tier, seed, meta, agg, fresh, matched, findings, wall)

    for fid, n in sorted(matched.items()):
        f = findings[fid]
        print('KNOWN-FINDING: property=%s %s (%s; matched %d times this run)' % (prop, f['what'], fid, n))
    for ln in lines:
        print(ln)
    summary = ('%s tier=%s seed=%d: %d evaluations, %d distinct non-trivial signatures, '
               '%d workers, %.1fs' % (prop, tier, seed, agg['evaluations'], len(agg['sigs']),
                                      agg['workers'], wall))
    if fresh:
        print(summary + ' -> %d violating observations in %d distinct mechanisms' % (n_viol, len(fresh)))
        return 1
    if agg['inconclusive']:
        for r in agg['inconclusive'][:8]:
            print('INCONCLUSIVE property=%s reason=%s' % (prop, str(r)[:600]))
        print(summary + ' -> inconclusive')
        return 2
    print(summary + ' -> held on everything observed')
    return 0


def write_evidence(prop, tier, seed, meta, agg, fresh, matched, findings, wall):
    hist = agg['hist']
    per_kind = {k[5:]: v for k, v in hist.items() if k.startswith('kind:')}
    outcomes = {k[8:]: v for k, v in hist.items() if k.startswith('outcome:')}
    warns = {k[8:]: v for k, v in hist.items() if k.startswith('warning:')}
    extra_hist = {k: v for k, v in hist.items()
                  if not k.startswith(('kind:', 'outcome:', 'warning:'))}
    counts = agg['counts']
    cov = {}
    try:
        if agg['cov_lines']:
            cov = cov_summary(agg)
    except Exception as e:      # evidence of reach only
        cov = {'error': str(e)}
    samples = agg['samples'] or [{'note': 'no sample recorded'}]
    ev = {
        'property_id': prop, 'tier': tier, 'seed': seed, 'level': 'exploration',
        'coverage': {
            'evaluations': int(agg['evaluations']),
            'distinct_nontrivial': len(agg['sigs']),
            'rule': meta['rule'],
            'samples': samples,
            # the run as a whole is never exhaustive (it always contains sampled parts);
            # the part that IS enumerated completely, with its bounds, is described in words
            'exhaustive': False,
            'exhaustively_enumerated_part': meta.get('exhaustive_part', 'none'),
            'signatures_total_counted': int(agg['all_sigs']),
            'observed': {
                'add_calls_by_message_kind': per_kind,
                'outcome_histogram': outcomes,
                'warnings_by_category': warns,
                'primitive_calls': {k[5:]: v for k, v in counts.items() if k.startswith('prim:')},
                'accessor_evaluations': {k[4:]: v for k, v in counts.items() if k.startswith('acc:')},
                'accessor_raises': {k[9:]: v for k, v in counts.items() if k.startswith('accraise:')},
                'accessor_mismatches': {k[8:]: v for k, v in counts.items() if k.startswith('accfail:')},
                'warning_emissions_seen_by_proxy': {k[5:]: v for k, v in counts.items() if k.startswith('warn:')},
                'other': extra_hist,
            },
            'out_of_claim': dict(agg['ooc']),
            'other_property_deviations_seen_in_passing': dict(agg['other']),
            'known_findings_matched': {k: int(v) for k, v in matched.items()},
            'reach': cov,
            'monitors_attached': sorted(agg['attached']),
            'accessor_contract_mechanism': sorted(str(x) for x in agg['contracts']),
            'workers': agg['workers'],
            'inconclusive_reasons': [str(x)[:300] for x in agg['inconclusive']],
            'verdict': 'violated' if fresh else ('inconclusive' if agg['inconclusive'] else 'held-on-observed'),
            'fresh_violation_mechanisms': [v['signature'] for v in fresh][:20],
            'repo': repo(),
        },
        'assumptions': meta.get('assumptions', []) + [
            'CPython %s and xml.etree / pyexpat are trusted' % sys.version.split()[0],
            'the reference model in /verif/mon/spec.py and contracts.py states the property correctly',
            'held means: no deviation on the executions produced by this run, nothing more',
        ],
        'wall_s': round(wall, 2),
        'violations': int(sum(v['count'] for v in fresh)),
    }
    os.makedirs(evdir(), exist_ok=True)
    with open(os.path.join(evdir(), prop + '.json'), 'w') as f:
        json.dump(ev, f, indent=1, default=str)


if __name__ == '__main__':
    sys.exit(main())
