"""Accessor reference functions (C15-C17, C20) and their attachment.

Every documented read accessor of RunningOrder / Story / Item is wrapped so
that (a) an exception leaving it is recorded and re-raised unchanged, (b) the
returned value is compared with a value recomputed from the XML by the
reference functions below (written from the property statements).  Conditions
record and return True - they never raise into the library (several library
paths swallow exceptions).  icontract is the attachment mechanism for the
postconditions when importable; a plain wrapper otherwise.
"""
import math
from datetime import datetime, timedelta

from . import events as EV

try:
    import icontract
    HAVE_ICONTRACT = True
except Exception:      # pragma: no cover
    icontract = None
    HAVE_ICONTRACT = False


class ContractBroken(Exception):
    """Never raised: conditions record and return True."""


# ----------------------------------------------------------------- reference

def _child(e, tag):
    if e is None:
        return None
    for c in e:
        if c.tag == tag:
            return c
    return None


def _text(e, tag):
    c = _child(e, tag)
    return None if c is None else c.text


def _payload(story):
    return _child(_child(story, 'mosExternalMetadata'), 'mosPayload')


def _seconds(tag):
    """Value of a timing tag; None when its text is not a number (an empty tag, "0:45", "45s"):
    such a duration is unknown, which is not the same as absent-counting-as-zero."""
    try:
        return float(tag.text)
    except (TypeError, ValueError):
        return None


def ref_duration(story):
    p = _payload(story)
    if p is None:
        return None
    d = _child(p, 'StoryDuration')
    if d is not None:
        return _seconds(d)
    tt, mt = _child(p, 'TextTime'), _child(p, 'MediaTime')
    if tt is None and mt is None:
        return None
    a = _seconds(tt) if tt is not None else 0
    b = _seconds(mt) if mt is not None else 0
    if a is None or b is None:
        return None
    return a + b


def ref_time(text):
    if text is None:
        return None
    try:
        return datetime.fromisoformat(text)
    except ValueError:
        # "parseable times": the library documents dateutil as its parser, so a time only dateutil reads
        # (zone names, unpadded fields, surrounding white space, other layouts) denotes what dateutil says
        from dateutil.parser import parse
        return parse(text)


def ref_ro_start(rc):
    return ref_time(_text(rc, 'roEdStart'))


def ref_story_table(rc):
    """Reference id/duration/offset/start/end for every story of a running
    order element, plus flags telling which relations are in claim."""
    stories = [c for c in rc if c.tag == 'story']
    durs = [ref_duration(s) for s in stories]
    if any(d is not None and not math.isfinite(d) for d in durs):
        raise ValueError('non-finite duration: outside the claim')
    all_timed = all(d is not None for d in durs)
    ids = [_text(s, 'storyID') for s in stories]
    start0 = ref_ro_start(rc)
    rows = []
    t = 0.0
    for s, d, i in zip(stories, durs, ids):
        p = _payload(s)
        ex_start = ref_time(_text(p, 'StoryStarted')) if p is not None else None
        ex_end = ref_time(_text(p, 'StoryEnded')) if p is not None else None
        offset = t if all_timed else None
        if ex_start is not None:
            start = ex_start
        elif start0 is not None and offset is not None:
            start = start0 + timedelta(seconds=offset)
        else:
            start = None
        if ex_end is not None:
            end = ex_end
        elif start is not None and d is not None:
            end = start + timedelta(seconds=d)
        else:
            end = None
        rows.append({'id': i, 'duration': d, 'offset': offset, 'start': start, 'end': end,
                     'ex_start': ex_start, 'ex_end': ex_end})
        if d is not None:
            t += d
    return {'rows': rows, 'all_timed': all_timed, 'unique': len(set(ids)) == len(ids),
            'start0': start0,
            'total': (sum(d for d in durs) if all_timed else None)}


def is_note(text):
    t = text.strip()
    return (t.startswith('(') and t.endswith(')')) or (t.startswith('<') and t.endswith('>'))


class _Wild:
    """A paragraph with inline markup: what "its text" is (the text before the first
    child, or all text inside) is not claimed - it may contribute any one string or none."""
    def __repr__(self):
        return '<paragraph with inline markup: text not claimed>'


WILD = _Wild()


def ref_script(story):
    out = []
    for c in story:
        if c.tag != 'p':
            continue
        if len(c):
            out.append(WILD)
        elif c.text and c.text.strip() and not is_note(c.text):
            out.append(c.text.strip())
    return out


def script_matches(got, want):
    if not isinstance(got, list) or not all(isinstance(g, str) for g in got):
        return False
    if not any(w is WILD for w in want):
        return got == want
    # each WILD stands for zero or one arbitrary line
    reach = {0}
    for w in want:
        nxt = set()
        for i in reach:
            if w is WILD:
                nxt.add(i)
                if i < len(got):
                    nxt.add(i + 1)
            elif i < len(got) and got[i] == w:
                nxt.add(i + 1)
        reach = nxt
        if not reach:
            return False
    return len(got) in reach


def ref_body(story):
    """List of ('p', text) / ('item', element)."""
    out = []
    for c in story:
        if c.tag == 'p':
            out.append(('p', WILD if len(c) else (c.text if c.text is not None else '')))
        elif c.tag == 'item':
            out.append(('item', c))
    return out


def ref_note(item):
    p = _child(_child(item, 'mosExternalMetadata'), 'mosPayload')
    if p is None:
        return None
    for sc in p.iter('studioCommand'):
        if sc is not p and sc.attrib.get('type') == 'note':
            t = _child(sc, 'text')
            return None if t is None else t.text
    return None


def feq(a, b):
    if a is None or b is None:
        return a is b
    try:
        return math.isclose(a, b, rel_tol=1e-9, abs_tol=1e-9)
    except TypeError:
        return False


def body_matches(got, want):
    if not isinstance(got, list) or len(got) != len(want):
        return False
    for g, (k, w) in zip(got, want):
        if k == 'p':
            if not isinstance(g, str) or (w is not WILD and g != w):
                return False
        else:
            if getattr(g, 'xml', None) is not w:
                return False
    return True


# ---------------------------------------------------------------- conditions

def _rec(cls, name, ok, got=None, want=None, prop='C15', note=None):
    EV.COUNTS[f'acc:{cls}.{name}'] += 1
    if not ok:
        EV.COUNTS[f'accfail:{cls}.{name}'] += 1
        if len(EV.ACC_FAIL) < 200:
            EV.ACC_FAIL.append({'cls': cls, 'name': name, 'kind': 'mismatch', 'prop': prop,
                                'got': repr(got)[:300], 'want': repr(want)[:300], 'note': note})
    return True


def _in_ro(story_obj):
    """Story objects produced by RunningOrder.stories carry offsets; others do not."""
    return getattr(story_obj, '_story_offsets', None) is not None


# Story
def story_id_ok(self, result):
    if getattr(self.xml, 'tag', None) != 'story':
        return _rec('Story', 'id', True)      # ID wrapper over a message tag: judged by C20
    return _rec('Story', 'id', result == _text(self.xml, 'storyID'), result, _text(self.xml, 'storyID'))


def story_slug_ok(self, result):
    return _rec('Story', 'slug', result == _text(self.xml, 'storySlug'), result, _text(self.xml, 'storySlug'))


def story_items_ok(self, result):
    if getattr(self, '_unknown_items', False):
        return _rec('Story', 'items', result is None, result, None)
    want = [c for c in self.xml if c.tag == 'item']
    ok = isinstance(result, list) and len(result) == len(want) and all(
        getattr(g, 'xml', None) is w for g, w in zip(result, want))
    return _rec('Story', 'items', ok, [getattr(g, 'id', None) for g in result or []],
                [_text(w, 'itemID') for w in want])


def story_duration_ok(self, result):
    try:
        want = ref_duration(self.xml)
    except (ValueError, TypeError, ArithmeticError):
        return True          # non-numeric durations: outside the claim
    return _rec('Story', 'duration', feq(result, want), result, want, prop='C16')


def story_script_ok(self, result):
    if any(len(c) for c in self.xml if c.tag == 'p'):
        return True          # inline child elements in paragraphs: outside the claim
    want = ref_script(self.xml)
    return _rec('Story', 'script', script_matches(result, want), result, want, prop='C17')


def story_body_ok(self, result):
    if any(len(c) for c in self.xml if c.tag == 'p'):
        return True
    want = ref_body(self.xml)
    return _rec('Story', 'body', body_matches(result, want),
                [g if isinstance(g, str) else ('item', getattr(g, 'id', None)) for g in result or []],
                [w if k == 'p' else ('item', _text(w, 'itemID')) for k, w in want], prop='C17')


# Item
def item_id_ok(self, result):
    if getattr(self.xml, 'tag', None) != 'item':
        return _rec('Item', 'id', True)
    return _rec('Item', 'id', result == _text(self.xml, 'itemID'), result, _text(self.xml, 'itemID'))


def item_slug_ok(self, result):
    return _rec('Item', 'slug', result == _text(self.xml, 'itemSlug'), result, _text(self.xml, 'itemSlug'))


def item_type_ok(self, result):
    return _rec('Item', 'type', result == _text(self.xml, 'objType'), result, _text(self.xml, 'objType'))


def item_object_id_ok(self, result):
    return _rec('Item', 'object_id', result == _text(self.xml, 'objID'), result, _text(self.xml, 'objID'))


def item_mos_id_ok(self, result):
    return _rec('Item', 'mos_id', result == _text(self.xml, 'mosID'), result, _text(self.xml, 'mosID'))


def item_note_ok(self, result):
    want = ref_note(self.xml)
    return _rec('Item', 'note', result == want, result, want)


# RunningOrder
def _rc(ro):
    return _child(ro.xml, 'roCreate') if ro.xml.find('roCreate') is not None else None


def _is_plain_ro(self):
    return type(self).__name__ == 'RunningOrder' and _rc(self) is not None


def ro_stories_ok(self, result):
    if not _is_plain_ro(self):
        return True
    rc = _rc(self)
    want_els = [c for c in rc if c.tag == 'story']
    ok = isinstance(result, list) and len(result) == len(want_els) and all(
        getattr(g, 'xml', None) is w for g, w in zip(result, want_els))
    _rec('RunningOrder', 'stories', ok, [getattr(g, 'id', None) for g in result or []],
         [_text(w, 'storyID') for w in want_els])
    if not ok:
        return True
    try:
        tab = ref_story_table(rc)
    except (ValueError, TypeError, ArithmeticError):
        return True          # non-numeric / unparseable timing: outside the claim
    if not tab['unique']:
        return True
    for g, row in zip(result, tab['rows']):
        try:
            got = (g.offset, g.start_time, g.end_time)
        except BaseException as e:   # recorded by the accessor wrappers themselves
            continue
        if tab['all_timed']:
            _rec('Story', 'offset@ro', feq(got[0], row['offset']), got[0], row['offset'], prop='C16')
            _rec('Story', 'start_time@ro', got[1] == row['start'], got[1], row['start'], prop='C16')
            _rec('Story', 'end_time@ro', got[2] == row['end'], got[2], row['end'], prop='C16')
        else:
            # partly timed running order: only the explicit values are in claim
            if row['ex_start'] is not None:
                _rec('Story', 'start_time@ro', got[1] == row['ex_start'], got[1], row['ex_start'], prop='C16')
            if row['ex_end'] is not None:
                _rec('Story', 'end_time@ro', got[2] == row['ex_end'], got[2], row['ex_end'], prop='C16')
    return True


def ro_duration_ok(self, result):
    if not _is_plain_ro(self):
        return True
    try:
        tab = ref_story_table(_rc(self))
    except (ValueError, TypeError, ArithmeticError):
        return True
    if tab['all_timed']:
        return _rec('RunningOrder', 'duration', feq(result, tab['total']) or
                    (not tab['rows'] and result is None), result, tab['total'], prop='C16')
    return _rec('RunningOrder', 'duration', True)


def ro_start_ok(self, result):
    if not _is_plain_ro(self):
        return True
    try:
        want = ref_ro_start(_rc(self))
    except (ValueError, TypeError, ArithmeticError):
        return True
    return _rec('RunningOrder', 'start_time', result == want, result, want, prop='C16')


def ro_end_ok(self, result):
    if not _is_plain_ro(self):
        return True
    try:
        tab = ref_story_table(_rc(self))
    except (ValueError, TypeError, ArithmeticError):
        return True
    if not tab['rows']:
        return _rec('RunningOrder', 'end_time', result is None, result, None, prop='C16')
    last = tab['rows'][-1]
    if tab['all_timed'] and tab['unique']:
        return _rec('RunningOrder', 'end_time', result == last['end'], result, last['end'], prop='C16')
    if last['ex_end'] is not None:
        return _rec('RunningOrder', 'end_time', result == last['ex_end'], result, last['ex_end'], prop='C16')
    return _rec('RunningOrder', 'end_time', True)


def ro_script_ok(self, result):
    if not _is_plain_ro(self):
        return True
    want = []
    for s in _rc(self):
        if s.tag == 'story':
            if any(len(c) for c in s if c.tag == 'p'):
                return True
            want.extend(ref_script(s))
    return _rec('RunningOrder', 'script', script_matches(result, want), result, want, prop='C17')


def ro_body_ok(self, result):
    if not _is_plain_ro(self):
        return True
    want = []
    for s in _rc(self):
        if s.tag == 'story':
            if any(len(c) for c in s if c.tag == 'p'):
                return True
            want.extend(ref_body(s))
    return _rec('RunningOrder', 'body', body_matches(result, want),
                [g if isinstance(g, str) else ('item', getattr(g, 'id', None)) for g in result or []],
                [w if k == 'p' else ('item', _text(w, 'itemID')) for k, w in want], prop='C17')


def ro_completed_ok(self, result):
    want = any(c.tag == 'mosromgrmeta' for c in self.xml)
    return _rec('RunningOrder', 'completed', result is want, result, want, prop='C07')


def ro_slug_ok(self, result):
    if not _is_plain_ro(self):
        return True
    return _rec('RunningOrder', 'ro_slug', result == _text(_rc(self), 'roSlug'), result, _text(_rc(self), 'roSlug'))


CONDITIONS = {
    'Story': {'id': story_id_ok, 'slug': story_slug_ok, 'items': story_items_ok,
              'duration': story_duration_ok, 'script': story_script_ok, 'body': story_body_ok,
              'offset': None, 'start_time': None, 'end_time': None},
    'Item': {'id': item_id_ok, 'slug': item_slug_ok, 'type': item_type_ok,
             'object_id': item_object_id_ok, 'mos_id': item_mos_id_ok, 'note': item_note_ok},
    'RunningOrder': {'stories': ro_stories_ok, 'duration': ro_duration_ok,
                     'start_time': ro_start_ok, 'end_time': ro_end_ok, 'script': ro_script_ok,
                     'body': ro_body_ok, 'completed': ro_completed_ok, 'ro_slug': ro_slug_ok},
}


def _guard(cls_name, name, fget):
    """Exception recorder around a getter (icontract cannot see raises)."""
    def getter(self):
        try:
            return fget(self)
        except BaseException as e:
            EV.COUNTS[f'accraise:{cls_name}.{name}'] += 1
            if len(EV.ACC_FAIL) < 200:
                EV.ACC_FAIL.append({'cls': cls_name, 'name': name, 'kind': 'raise', 'prop': 'C15',
                                    'exc': [c.__name__ for c in type(e).__mro__][:2],
                                    'msg': str(e)[:200],
                                    'self_cls': type(self).__name__})
            raise
    getter.__name__ = getattr(fget, '__name__', name)
    getter.__doc__ = getattr(fget, '__doc__', None)
    return getter


def _post(cond, fget):
    if cond is None:
        return fget
    if HAVE_ICONTRACT:
        return icontract.ensure(cond, error=ContractBroken)(fget)

    def getter(self):
        r = fget(self)
        cond(self, r)
        return r
    getter.__name__ = getattr(fget, '__name__', 'getter')
    return getter


def attach(mt, me):
    done = []
    classes = {'Story': me.Story, 'Item': me.Item, 'RunningOrder': mt.RunningOrder}
    for cname, conds in CONDITIONS.items():
        cls = classes[cname]
        for name, cond in conds.items():
            prop = cls.__dict__.get(name)
            if not isinstance(prop, property):
                continue
            fget = _guard(cname, name, _post(cond, prop.fget))
            setattr(cls, name, property(fget, prop.fset, prop.fdel, prop.__doc__))
            done.append(f'{cname}.{name}')
    return {'mechanism': 'icontract.ensure' if HAVE_ICONTRACT else 'plain-wrapper', 'accessors': done}
