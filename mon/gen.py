"""Workload generators: running orders, messages aimed at a given state,
bounded-exhaustive grids and seeded random histories.  No mosromgr import.
"""
import itertools
import random
from xml.etree import ElementTree as ET

from . import build as B
from .build import BLANK, ABSENT, E
from .canon import Abs, item_ids, sid

PLAIN_TEXT = ['Hello', 'This is story text', 'x', 'Line two here', 'ok then', 'Zed']
HOSTILE_TEXT = [
    'a & b', '1 < 2 > 0', 'say "hi" & \'bye\'', 'tab\there', 'nl\nhere', '  padded  ',
    'café naïve', '\U0001F600 grin', 'é combining', '中文', ']]> cdata end',
    '&amp; literally', '<notatag>', ' nbsp ls', '--', '\\n',
    # text that LOOKS like a reference after parsing (decoding it a second time changes it),
    # a backslash path, other Unicode line boundaries
    'zero\ufeffwidth no-break space inside', '&lt;VT&gt;', 'q=budget&region=wales&section=politics', '&#163;5 &pound;5', 'P_GFX\\W;C_1A', 'next\x85line\u2029para',
]
CR_TEXT = ['a\ue00db', 'line\ue00d\nend', '\ue00d']
NOTE_TEXT = ['(BONG)', '<VT IN>', '(', ')', '()', '<>', '( x )', '  (padded note)  ', '(half', 'half)',
             '(two\nlines)', '<a\nb>', '(\n)', '\n(note after a line feed)\n', 'plain\n(second line in brackets)',
             '(mix>', '<mix)', '', ' ', '\n  \n', 'plain (with) brackets', '<a> and <b>', '(a) then (b)',
             # reference-like text: not a note, and not to be decoded a second time
             '&lt;VT&gt;', '&amp;', 'q=budget&region=wales&section=politics', '&#40;not a note&#41;', 'AT&T',
             # characters outside the Basic Multilingual Plane
             '\U0001F600 good evening', '(\U0001F3AC)', '\U00020000\U0001D49C',
             # markup-like text in the middle of a line: part of the line, neither a note nor markup to remove
             'Good evening <pause> and welcome', '<b>Headline</b> tonight', 'quoted </mos> end', '<mos><roCreate/></mos>', 'Turn to camera 2 <CAM2>', 'x</p>y', 'if a<b then b>a']
HOSTILE_IDS = ['S1', 'S10', 'S1 ', ' S1', 's1', 'S01', 'A&B', 'x<y', 'q"q', "o'o", '5" x 7\' card',
               'NEWS,AM,S1', 'SPORT,AM,S1', 'OPENMEDIA,7f3a.22,S10', '{6B29FC40-CA47-1067}', 'a{0}b', '%s %d {x}',
               'B"][itemID=\'B\'][itemID="B', 'éè', '\U0001F600',
               'a,b,c', '0', '-1', 'None', 'ID WITH SPACE', 'storyID', 'item', '..',
               'NEWS&amp;SPORT', 'a&lt;b', 'x&#65;', 'P_GFX\\W;C_1A2B3C', 'tab\there', 'News\u2028Late', 'S1\x85A', 'A\ufeff1']


def rng_for(seed, *parts):
    return random.Random('/'.join(str(p) for p in (seed,) + parts))


class Ids:
    """Fresh-ID source."""
    def __init__(self, prefix='N'):
        self.n = 0
        self.prefix = prefix
        self.recycled = []       # IDs of elements that are gone: a later message may create them again
        self.rng = None

    def new(self, tag=''):
        if self.recycled and self.rng is not None and self.rng.random() < 0.25:
            return self.recycled.pop(self.rng.randrange(len(self.recycled)))
        self.n += 1
        return f'{self.prefix}{tag}{self.n}'


def text_pool(mode):
    if mode == 'plain':
        return PLAIN_TEXT
    if mode == 'hostile':
        return PLAIN_TEXT + HOSTILE_TEXT
    if mode == 'cr':
        return PLAIN_TEXT + HOSTILE_TEXT + CR_TEXT
    if mode == 'notes':
        return PLAIN_TEXT + NOTE_TEXT + HOSTILE_TEXT[:6]
    raise ValueError(mode)


def rich_blob(rng, depth, pool, tag=None):
    """A nested element with attributes, mixed text and tails."""
    e = E(tag or rng.choice(['meta', 'data', 'blk', 'story', 'item', 'roDelete', 'mosromgrmeta',
                             'roCreate', 'storyID', 'itemID', 'p', '{urn:vendor}clip', '{urn:vendor}TextTime',
                             '{urn:vendor}storyID', '{urn:vendor}item', '{urn:vendor}roDelete',
                             'L\u00e4nge', 'Gr\u00f6\u00dfe']))   # XML names need not be ASCII (kept within Latin-1:
                                                                 # some workloads re-encode documents as ISO-8859-1,
                                                                 # where a NAME cannot be a character reference)
    if rng.random() < 0.5:
        e.set(rng.choice(['a', 'type', 'lang', 'x-y', 'Ma\u00dfeinheit']), rng.choice(pool))
    if rng.random() < 0.3:
        e.set('b', rng.choice(pool))
    if depth > 0 and rng.random() < 0.7:
        if rng.random() < 0.3:
            e.text = rng.choice(pool)
        for _ in range(rng.randint(1, 3)):
            c = rich_blob(rng, depth - 1, pool)
            if rng.random() < 0.25:
                c.tail = rng.choice(pool)
            e.append(c)
    else:
        e.text = rng.choice(pool + [None])
    return e


def xml_noise(rng, text, p=0.2):
    """Safety net around _xml_noise: the noisy text must parse (a generator slip must never reach a check
    as an ill-formed 'well-formed document'); otherwise the plain text is used."""
    out = _xml_noise(rng, text, p)
    if out is not text:
        try:
            ET.fromstring(out)
        except ET.ParseError:
            return text
    return out


def _xml_noise(rng, text, p=0.2):
    """With probability p, sprinkle constructs the XML parser absorbs - comments,
    processing instructions, CDATA sections, an XML declaration - over a document.
    The parsed content is unchanged (the oracle parses the same text)."""
    import re
    if rng.random() >= p:
        return text
    def after_close(m):
        r = rng.random()
        if r < 0.015:
            # markup-looking text the parser never sees as markup: a closing envelope tag inside a comment
            return m.group(0) + rng.choice(['<!-- </mos> -->', '<!-- <mos><roDelete/></mos> -->', '<?audit </mos>?>'])
        if r < 0.06:
            return m.group(0) + '<!-- note %d -->' % rng.randint(0, 99)
        if r < 0.09:
            return m.group(0) + '<?editor hint="%d"?>' % rng.randint(0, 9)
        return m.group(0)
    out = re.sub(r'</[A-Za-z_][\w.-]*>', after_close, text)
    def leaf(m):
        t = m.group(1)
        r = rng.random()
        if r < 0.12 and ']]>' not in t:
            return '><![CDATA[' + t + ']]></'
        if r < 0.30:
            # a comment / PI in the middle of character data (IDs, durations, slugs ...):
            # the parser drops it and the text is the concatenation of the pieces
            k = rng.randint(0, len(t))
            ins = '<!-- rev %d -->' % rng.randint(0, 9) if rng.random() < 0.7 else '<?x y?>'
            return '>' + t[:k] + ins + t[k:] + '</'
        return m.group(0)
    out = re.sub(r'>([^<&]+)</', leaf, out)
    if rng.random() < 0.3:
        # attributes on ID tags do not change the ID
        out = re.sub(r'<(storyID|itemID)>', lambda m: '<%s rev="%d">' % (m.group(1), rng.randint(1, 9))
                     if rng.random() < 0.3 else m.group(0), out)
    if rng.random() < 0.25:
        # a DEFAULT namespace declared on a vendor element somewhere below the (un-namespaced) envelope
        out = re.sub(r'<(mosAbstract|info|mosExtra|mosTrailer|meta|data|blk)(?=[ >/])(?![^>]*\bxmlns=)',
                     lambda m: '<%s xmlns="urn:vendor:default"' % m.group(1) if rng.random() < 0.5 else m.group(0), out, count=3)
    r = rng.random()
    if not out.lstrip().startswith('<?xml') and '<!DOCTYPE' not in out:
        if r < 0.25:
            out = '<?xml version="1.0" encoding="UTF-8"?>\n' + out
        elif r < 0.40:
            root = re.match(r'\s*<([A-Za-z_][\w.-]*)', out)
            if root:
                out = '<!DOCTYPE %s [<!ENTITY verifent "entity text">]>\n' % root.group(1) + out
    return out


def split_ids(rng, text, p=0.5):
    """Put a comment before the last character of storyID / itemID texts: for a
    parser that drops comments the ID is unchanged; anything that keeps them as
    nodes reads a PREFIX of the ID (S1<!-- c -->0 -> "S1"), which collides with
    another element when IDs are prefixes of one another."""
    import re
    def f(m):
        if rng.random() < p:
            t = m.group(2)
            return '<%s>%s<!-- c -->%s</' % (m.group(1), t[:-1], t[-1:])
        return m.group(0)
    return re.sub(r'<(storyID|itemID)>([^<&]{2,})</', f, text)


# times dateutil reads (the library's documented parser) that are not strict ISO-8601: a zone name,
# unpadded fields, surrounding white space (a re-indented document), another layout, a short UTC offset
LOOSE_TIMES = ['%(d)sT%(t)s GMT', '%(d)sT%(t)s UTC', '%(y)d-%(m)d-%(dd)dT%(t)s', ' %(d)sT%(t)s ', '\n        %(d)sT%(t)s\n      ',
               '%(dd)d %(mon)s %(y)d %(t)s', '%(d)sT%(t)s-5:00', 'Wed, %(dd)02d %(mon)s %(y)d %(t)s +0000']


GARBAGE_TIMES = ['to be confirmed', 'TBC 12:30', '25:99', 'half past twelve-ish', '2020-13-45T99:99:99', '0']


def loose_time(rng, day, clock):
    y, m, dd = (int(x) for x in day.split('-'))
    mon = ['Jan', 'Feb', 'Mar', 'Apr', 'May', 'Jun', 'Jul', 'Aug', 'Sep', 'Oct', 'Nov', 'Dec'][m - 1]
    return rng.choice(LOOSE_TIMES) % {'d': day, 't': clock, 'y': y, 'm': m, 'dd': dd, 'mon': mon}


def second_block(rng):
    """A further mosExternalMetadata block of another schema that happens to use timing tag names:
    a story's timing is read from its FIRST block only."""
    mem = E('mosExternalMetadata')
    mem.append(E('mosScope', 'STORY'))
    mem.append(E('mosSchema', 'http://example/other'))
    p = E('mosPayload')
    for tag, v in (('StoryDuration', '77'), ('TextTime', '5'), ('MediaTime', '9'),
                   ('StoryStarted', '2019-12-31T23:00:00'), ('StoryEnded', '2019-12-31T23:30:00')):
        if rng.random() < 0.5:
            p.append(E(tag, v))
    mem.append(p)
    return mem


def rand_timing(rng, mode='any'):
    """Timing metadata block or None.  mode: any | timed | none | wild"""
    if mode == 'wild':
        # values float() reads that are not finite or do not fit a timedelta (C12 workloads only:
        # the accessor properties are not claimed for such "durations")
        if rng.random() < 0.4:
            return B.timing(**{rng.choice(['duration', 'text_time', 'media_time']):
                               rng.choice(['nan', 'inf', '-inf', '1e15', '1e400', '-1e15'])})
        mode = 'any'
    if mode == 'none' or (mode == 'any' and rng.random() < 0.3):
        if mode == 'any' and rng.random() < 0.25:
            return B.timing(payload=False)       # mosExternalMetadata without mosPayload
        if mode == 'any' and rng.random() < 0.2:
            return B.timing()                    # empty payload
        return None
    # zero is a duration too; some values are not a whole number of milliseconds in binary
    q = lambda: (0 if rng.random() < 0.12 else
                 rng.choice([2.01, 2.03, 4.06, 8.03, 1.001, 0.0004, 0.1, 0.2, 0.57, 4.35]) if rng.random() < 0.15 else
                 rng.randint(0, 64) / 8)
    kw = {}
    c = rng.random()
    if c < 0.3:
        kw['duration'] = q()
        if rng.random() < 0.3:
            kw['text_time'] = q()
    elif c < 0.5:
        kw['text_time'] = q()
    elif c < 0.65:
        kw['media_time'] = q()
    else:
        kw['text_time'] = q()
        kw['media_time'] = q()
    fmt = rng.choice(['%sT%s', '%sT%s', '%s %s', '%sT%s.250000', 'MINUTE', 'DATE'])   # ISO-8601 spellings
    def spell(day, hh, mm, ss):
        if fmt == 'MINUTE':
            return '%sT%02d:%02d' % (day, hh, mm)          # no seconds
        if fmt == 'DATE':
            return day                                     # date only: midnight
        # sometimes with a UTC offset or a zone designator (an aware time)
        if rng.random() < 0.15:
            return loose_time(rng, day, '%02d:%02d:%02d' % (hh, mm, ss))
        zone = rng.choice(['', '', '', '+01:00', 'Z', '-05:30'])
        return fmt % (day, '%02d:%02d:%02d' % (hh, mm, ss)) + zone
    if rng.random() < 0.2:
        kw['started'] = spell('2020-01-01', rng.randint(0, 23), rng.randint(0, 59), 0)
    if rng.random() < 0.2:
        kw['ended'] = spell('2020-01-02', rng.randint(0, 23), rng.randint(0, 59), 30)
    if rng.random() < 0.12:
        # other spellings of a number that float() reads: sign, exponent, padding, leading zero
        for k_ in ('duration', 'text_time', 'media_time'):
            if k_ in kw and not isinstance(kw[k_], str) and rng.random() < 0.7:
                v_ = kw[k_]
                kw[k_] = rng.choice(['+%s' % v_, ' %s ' % v_, '0%s' % v_, '%se0' % v_, '-%s' % v_, '%s' % (v_ * 1000) + 'e-3'])
    if rng.random() < 0.05:
        # a timing field whose text is not a number (the payload is vendor data: "0:45", an empty tag, a unit)
        k_ = rng.choice([k for k in ('duration', 'text_time', 'media_time') if k in kw] or ['text_time'])
        kw[k_] = rng.choice(['0:45', '', '45s', 'soon', '00:00:45', '--:--', '00:01:30;12', '1:30:', ':', '1:2:3:4'])
    if rng.random() < 0.12:
        # all three fields, StoryDuration disagreeing with TextTime + MediaTime (it takes precedence wherever it stands)
        kw['duration'], kw['text_time'], kw['media_time'] = q(), q(), q()
    t = B.timing(**kw)
    if rng.random() < 0.35:
        # the order of the payload fields is not fixed
        p_ = t.find('mosPayload')
        kids_ = list(p_)
        rng.shuffle(kids_)
        p_[:] = kids_
    if rng.random() < 0.15:
        # a vendor element in its own namespace whose local name looks like a MOS timing tag
        p = t.find('mosPayload')
        p.insert(0, E('{urn:vendor}' + rng.choice(['TextTime', 'StoryDuration', 'StoryStarted']), '90'))
    return t


def rand_para(rng, texts, rich=True):
    """A paragraph: mostly plain text; sometimes inline markup (leading, so that the
    paragraph has no text of its own, or in the middle) or loose character data after it."""
    r = rng.random()
    if not rich or r < 0.8:
        return E('p', rng.choice(texts))
    if r < 0.87:
        return E('p', None, E(rng.choice(['pi', 'em', 'b']), rng.choice(['TURN TO MAP', 'WIDE SHOT', '(VT)']),
                             tail=rng.choice([' Rain spreading east', None, ' (still a line)'])))
    if r < 0.92:
        return E('p', rng.choice(texts), E('em', 'really', tail=rng.choice([' good', ')', None])))
    return E('p', rng.choice(texts), tail=rng.choice(['*', 'rev 3', '(loose note)', 'loose text after the paragraph']))


def rand_item(rng, item_id, pool, rich=True, tag='item'):
    extra = []
    if rng.random() < 0.5:
        extra.append(E('objID', rng.choice(pool)))
    if rng.random() < 0.4:
        extra.append(E('mosID', rng.choice(pool)))
    if rng.random() < 0.4:
        extra.append(E('objType', rng.choice(['VIDEO', 'AUDIO', 'STILL'])))
    if rich and rng.random() < 0.4:
        extra.append(rich_blob(rng, 2, pool, 'mosAbstract'))
    if rng.random() < 0.3:
        sc = E('studioCommand', None, attrib={'type': rng.choice(['note', 'note', 'cue'])})
        if rng.random() < 0.8:
            sc.append(E('text', rng.choice(pool + [None])))
        else:
            sc.append(E('duration', '3'))        # a note command without any <text>
        wrap = E('x', None, sc) if rng.random() < 0.5 else sc
        payload = E('mosPayload', None, wrap)
        if rng.random() < 0.35:
            # further commands after the first one: another note (with or without a text), a cue - the note of an
            # item is the text of its FIRST note command
            for _ in range(rng.randint(1, 2)):
                sc2 = E('studioCommand', None, attrib={'type': rng.choice(['note', 'note', 'cue'])})
                if rng.random() < 0.5:
                    sc2.append(E('text', rng.choice(pool + [None])))
                payload.append(sc2)
        extra.append(E('mosExternalMetadata', None, E('mosSchema', 'http://n'), payload))
    slug = rng.choice(pool) if rng.random() < 0.8 else None
    return B.item(item_id, slug, extra, tag=tag)


def rand_story(rng, story_id, item_idgen, pool, n_items=None, layout=None, timing='any',
               rich=True, shared_item_ids=None):
    """layout: adj | inter | mixed | None(random)."""
    layout = layout or rng.choice(['adj', 'inter', 'mixed'])
    n = rng.randint(0, 5) if n_items is None else n_items
    kids = []
    notes = text_pool('notes')
    if layout != 'adj' and rng.random() < 0.6:
        kids.append(rand_para(rng, notes, rich))
    for k in range(n):
        if shared_item_ids and rng.random() < 0.5 and k < len(shared_item_ids):
            iid_ = shared_item_ids[k]
        else:
            iid_ = item_idgen()
        kids.append(rand_item(rng, iid_, pool, rich))
        if layout == 'inter' or (layout == 'mixed' and rng.random() < 0.6):
            kids.append(rand_para(rng, notes + pool, rich))
        if layout == 'mixed' and rng.random() < 0.3:
            kids.append(rich_blob(rng, 1, pool, rng.choice(['pi', 'break', 'storyItem', 'itemID', 'storyBody'])))
            if rng.random() < 0.3:
                # a story that kept (part of) the roStorySend layout: vendor data, to be left alone
                kids.append(E('storyBody', None, E('storyItem', None, E('itemID', item_idgen()), E('itemSlug', rng.choice(pool))),
                              E('p', rng.choice(pool)), attrib={'kept': 'as-sent'}))
    extra = []
    if rich and rng.random() < 0.4:
        extra.append(E('storyNum', str(rng.randint(1, 99))))
    t = rand_timing(rng, timing)
    if rich and t is not None and rng.random() < 0.2:
        extra.append(rich_blob(rng, 1, pool, 'mosAbstract'))
    if timing != 'none' and rng.random() < 0.1:
        kids.insert(0, second_block(rng))        # stands after the timing block (or is the only block)
    attrib = {'flag': rng.choice(pool)} if rich and rng.random() < 0.15 else None
    slug = rng.choice(pool) if rng.random() < 0.85 else None
    return B.story(story_id, slug, kids, timing_el=t, extra=extra, attrib=attrib)


META_TAGS = ['roChannel', 'roEdDur', 'roTrigger', 'macroIn', 'macroOut']


# schema names are compared as exact text: these all name DIFFERENT schemas
SCHEMAS = ('http://s/1', 'http://s/2', 'http://s/3', 'http://s/1#rights', 'http://s/1#timing', 'http://s/1/',
           'https://s/1', 'http://S/1', 'HTTP://s/1', 'http://s:80/1', 'http://s/1?v=2', 'urn:mos:s1')


def rand_meta(rng, pool, used, schemas=SCHEMAS):
    """A running-order metadata element with an identity not yet in `used`."""
    opts = [t for t in META_TAGS if (t, None) not in used]
    opts += [('mosExternalMetadata', s) for s in schemas if ('mosExternalMetadata', s) not in used]
    if not opts:
        return None
    if ('mosExternalMetadata', None) not in used and rng.random() < 0.12:
        # a block without any mosSchema tag: its identity is "no schema"
        used.add(('mosExternalMetadata', None))
        return E('mosExternalMetadata', None, E('mosScope', 'PLAYLIST'),
                 E('mosPayload', None, rich_blob(rng, 1, pool, 'info')))
    c = rng.choice(opts)
    if isinstance(c, tuple):
        used.add(c)
        return E('mosExternalMetadata', None, E('mosScope', 'PLAYLIST'), E('mosSchema', c[1]),
                 E('mosPayload', None, rich_blob(rng, 2, pool, 'info')))
    used.add((c, None))
    if rng.random() < 0.25:
        # a structured value (children, attributes) instead of a plain text value
        return E(c, None, E('name', rng.choice(pool)), E('region', rng.choice(pool)), attrib={'kind': 'structured'})
    if rng.random() < 0.15:
        return E(c, rng.choice(pool), attrib={'kind': rng.choice(['tv', 'radio'])})
    return E(c, rng.choice(pool + [None]))       # None: an empty element such as <roTrigger/>


def rand_ro(rng, n_stories=None, meta_layout=None, pool=None, timing='any', ids=None,
            story_ids=None, item_layout=None, rich=True, pretty=None, ro_id='RO', message_id=1,
            share_items=True, ed_start='auto'):
    pool = pool or text_pool('plain')
    n = rng.randint(0, 8) if n_stories is None else n_stories
    ids = ids or Ids('S')
    story_ids = story_ids or [ids.new() for _ in range(n)]
    ic = Ids('i')
    shared = [f'shared{k}' for k in range(3)] if share_items else None
    stories = [rand_story(rng, s, lambda: ic.new(), pool, layout=item_layout, timing=timing,
                          rich=rich, shared_item_ids=shared) for s in story_ids]
    meta_layout = meta_layout or rng.choice(['none', 'before', 'between', 'after', 'everywhere'])
    used = set()
    first, entries = [], []
    if meta_layout in ('before', 'everywhere'):
        for _ in range(rng.randint(1, 3)):
            mm = rand_meta(rng, pool, used)
            if mm is not None:
                first.append(mm)
    for k, s in enumerate(stories):
        entries.append(s)
        if meta_layout in ('between', 'everywhere') and k < len(stories) - 1 and rng.random() < 0.7:
            mm = rand_meta(rng, pool, used)
            if mm is not None:
                entries.append(mm)
    if meta_layout in ('after', 'everywhere'):
        for _ in range(rng.randint(1, 2)):
            mm = rand_meta(rng, pool, used)
            if mm is not None:
                entries.append(mm)
    if ed_start == 'wild':
        # C12 / C05 workloads only: a roEdStart that is not a time at all (the accessor properties claim
        # parseable times; a merge must not depend on them)
        ed_start = rng.choice(GARBAGE_TIMES) if rng.random() < 0.3 else 'auto'
    if ed_start == 'auto':
        r = rng.random()
        ed_start = ('2020-01-01T12:30:00' if r < 0.4 else '2020-01-01T12:30:15' if r < 0.5 else
                    '2020-01-01T12:30:15.500000' if r < 0.58 else '2020-01-01T12:30:00+01:00' if r < 0.64 else
                    '2020-01-01T12:30:00Z' if r < 0.7 else '' if r < 0.8 else
                    loose_time(rng, '2020-01-01', '12:30:05') if r < 0.87 else
                    # seconds before the clock changes in zones with daylight saving (times without a zone are plain
                    # wall-clock arithmetic, wherever the process runs)
                    rng.choice(['2021-03-28T00:59:55', '2021-03-28T01:59:57', '2021-10-31T00:59:55', '2021-10-31T01:59:57',
                                '2021-03-14T01:59:58', '2021-11-07T01:59:58']) if r < 0.93 else None)
    pretty = rng.random() < 0.5 if pretty is None else pretty
    env = {}
    if rich and rng.random() < 0.3:
        env['ncs_id'] = rng.choice(pool)
    if rich and rng.random() < 0.2:
        env['extra'] = [rich_blob(rng, 1, pool, 'mosExtra')]
    if rich:
        # the running-order element need not be the last child of the envelope
        r = rng.random()
        if r < 0.06:
            env['body_first'] = True
        elif r < 0.14:
            env['after'] = [rich_blob(rng, 1, pool, 'mosTrailer')]
    doc = B.ro_doc(ro_id, message_id, entries, slug=rng.choice(pool), ed_start=ed_start,
                   meta_first=first, pretty=pretty, **env)
    return xml_noise(rng, doc) if rich else doc


# --------------------------------------------------------------------------
# messages aimed at a state

REF_SHAPES = ('existing', 'unknown', 'blank', 'absent')


def pick_ref(rng, existing, weights=(0.78, 0.1, 0.08, 0.04), allow_absent=True, exclude=()):
    pool = [x for x in existing if x not in exclude]
    r = rng.random()
    if r < weights[0] and pool:
        return rng.choice(pool)
    r -= weights[0]
    if r < weights[1] or not pool and r < weights[0] + weights[1]:
        return 'UNKNOWN-%d' % rng.randint(0, 99)
    r -= weights[1]
    if r < weights[2] or not allow_absent:
        return BLANK
    return ABSENT


def new_story_for(rng, story_id, pool, timing='any', rich=True):
    ic = Ids('n%s-' % rng.randint(0, 999))
    return rand_story(rng, story_id, lambda: ic.new(), pool, timing=timing, rich=rich)


def _rand_message(rng, state, kind, message_id, ids, pool=None, ro_id='RO', timing='any',
                 shape_weights=(0.78, 0.1, 0.08, 0.04), selfref=0.06, rich=True, pretty=None,
                 blank_carried=0.0):
    """One message of `kind` aimed at the abstract state `state` (an Abs).
    Returns message text.  References are drawn against the actual state so
    that most messages bite."""
    pool = pool or text_pool('plain')
    S = [s for s in state.story_ids if s is not None]
    pretty = rng.random() < 0.5 if pretty is None else pretty
    kw = {'pretty': pretty}
    ref = lambda ex, **k: pick_ref(rng, ex, shape_weights, **k)

    def carried_stories(allow_dup=False, same=None):
        n = rng.choice([1, 1, 1, 2, 2, 3])
        out = []
        for k in range(n):
            if same is not None and k == 0 and rng.random() < 0.6:
                i = same
            elif allow_dup and S and rng.random() < 0.2:
                i = rng.choice(S)
            else:
                i = ids.new()
            if blank_carried and rng.random() < blank_carried:
                i = BLANK                     # a carried story with an empty <storyID/>
            out.append(new_story_for(rng, i, pool, timing, rich))
        return out

    if kind == 'roStoryAppend':
        return B.msg_doc(kind, message_id, ro_id, carried=carried_stories(), **kw)
    if kind in ('roStoryInsert', 'EAStoryInsert'):
        t = ref(S, allow_absent=(kind == 'EAStoryInsert'))
        if kind == 'EAStoryInsert' and t is ABSENT and rng.random() < 0.5:
            kw['target_el'] = False
        return B.msg_doc(kind, message_id, ro_id, target=t, carried=carried_stories(allow_dup=True), **kw)
    if kind in ('roStoryReplace', 'EAStoryReplace'):
        t = ref(S, allow_absent=False)
        same = t if isinstance(t, str) else None
        return B.msg_doc(kind, message_id, ro_id, target=t, carried=carried_stories(same=same), **kw)
    if kind == 'roStoryMove':
        s = ref(S, allow_absent=False)
        t = ref(S, exclude=() if rng.random() < selfref else (s,))
        return B.msg_doc(kind, message_id, ro_id, ids=[s], target=t, **kw)
    if kind in ('roStoryDelete', 'EAStoryDelete'):
        n = rng.choice([1, 1, 2, 2, 3, 4])
        chosen = []
        for _ in range(n):
            chosen.append(ref(S, allow_absent=False, exclude=() if rng.random() < selfref else
                              tuple(c for c in chosen if isinstance(c, str))))
        if kind == 'EAStoryDelete' and len(chosen) > 1 and rng.random() < 0.15:
            kw['split_sources'] = True      # one element_source per ID (not what the schema says, but it is read)
        if kind == 'EAStoryDelete' and rng.random() < 0.4:
            # element_target is "not needed" for a delete, but it may be there - and must be ignored
            kw['target'] = rng.choice([BLANK, 'UNKNOWN-t'] + [x for x in S if x not in chosen][:2])
        return B.msg_doc(kind, message_id, ro_id, ids=chosen, **kw)
    if kind == 'EAStoryMove':
        n = rng.choice([1, 1, 2, 2, 3])
        chosen = []
        for _ in range(n):
            chosen.append(ref(S, allow_absent=False, exclude=() if rng.random() < selfref else
                              tuple(c for c in chosen if isinstance(c, str))))
        t = ref(S, exclude=() if rng.random() < selfref else tuple(c for c in chosen if isinstance(c, str)))
        if t is ABSENT and rng.random() < 0.5:
            kw['target_el'] = False
        if len(chosen) > 1 and rng.random() < 0.15:
            kw['split_sources'] = True
        return B.msg_doc(kind, message_id, ro_id, ids=chosen, target=t, **kw)
    if kind == 'EAStorySwap':
        a = ref(S, allow_absent=False)
        b = ref(S, allow_absent=False, exclude=() if rng.random() < selfref else (a,))
        te = rng.random() < 0.5
        tgt = BLANK if te else ABSENT
        if te and S and rng.random() < 0.3:
            tgt = rng.choice(S)           # the spec wants it empty; a filled one must not matter
        return B.msg_doc(kind, message_id, ro_id, ids=[a, b], target=tgt, target_el=te, **kw)
    if kind == 'roStorySend':
        k = ref(S, allow_absent=False)
        body = []
        ic = Ids('ss%d-' % rng.randint(0, 999))
        for _ in range(rng.randint(0, 5)):
            r = rng.random()
            if r < 0.4:
                body.append(rand_item(rng, ic.new(), pool, rich, tag='storyItem'))
            elif r < 0.75:
                body.append(rand_para(rng, text_pool('notes') + pool, rich))
            elif r < 0.87:
                # other elements the schema (or a vendor) puts directly into the body
                body.append(E(rng.choice(['storyPresenter', 'storyPresenterRR', 'Read1stMEMasBody', 'em', 'tab',
                                          'story', 'Item', 'item', 's', 'pi']), rng.choice(pool)))
            else:
                nested = E('wrap', None, rand_item(rng, ic.new(), pool, False, tag='storyItem'))
                body.append(nested)
        fields = []
        if rng.random() < 0.9:
            fields.append(E('storySlug', rng.choice(pool)))
        if rng.random() < 0.4:
            fields.append(E('storyNum', '7'))
        t = rand_timing(rng, timing)
        if t is not None:
            fields.append(t)
            if rng.random() < 0.1:
                fields.append(second_block(rng))
        if rng.random() < 0.15:
            fields.insert(0, 'BODY0')               # storyBody before roID / storyID
        else:
            fields.insert(rng.randint(0, len(fields)), 'BODY')
        return B.msg_doc(kind, message_id, ro_id, story_ref=k, body=body, fields=fields, **kw)

    # ---- item level
    if kind in B.ITEM_KINDS:
        sref = ref(S, allow_absent=False)
        st = state.story(sref) if isinstance(sref, str) else None
        if st is None and S and rng.random() < 0.5:
            st = state.story(rng.choice(S))   # aim item refs at a real story anyway
        I = [i for i in (item_ids(st) if st is not None else []) if i is not None]
        ic = Ids('m%d-' % rng.randint(0, 9999))

        elsewhere = [i for st2 in state.stories if st2 is not st for i in item_ids(st2)
                     if i is not None and i not in I]

        def carried_items(same=None):
            n = rng.choice([1, 1, 2, 3])
            out = []
            for k in range(n):
                i = same if (same is not None and k == 0 and rng.random() < 0.6) else ic.new()
                if same is None and elsewhere and rng.random() < 0.15:
                    i = rng.choice(elsewhere)      # an item ID that only ANOTHER story uses (IDs are per story)
                out.append(rand_item(rng, i, pool, rich))
            return out
        if kind in ('EAItemMove', 'EAItemDelete', 'EAItemSwap') and S and rng.random() < 0.12:
            # a storyID inside element_source (mostly of ANOTHER story): the items are still the target story's
            kw = dict(kw, source_story=rng.choice(S))
        if kind in ('roItemInsert', 'EAItemInsert'):
            t = ref(I, allow_absent=False)
            return B.msg_doc(kind, message_id, ro_id, story_ref=sref, target=t, carried=carried_items(), **kw)
        if kind in ('roItemReplace', 'EAItemReplace'):
            t = ref(I, allow_absent=False)
            return B.msg_doc(kind, message_id, ro_id, story_ref=sref, target=t,
                             carried=carried_items(same=t if isinstance(t, str) else None), **kw)
        if kind in ('roItemDelete', 'EAItemDelete'):
            n = rng.choice([1, 1, 2, 2, 3])
            chosen = []
            for _ in range(n):
                chosen.append(ref(I, allow_absent=False, exclude=() if rng.random() < selfref else
                                  tuple(c for c in chosen if isinstance(c, str))))
            return B.msg_doc(kind, message_id, ro_id, story_ref=sref, ids=chosen, **kw)
        if kind in ('roItemMoveMultiple', 'EAItemMove'):
            n = rng.choice([1, 1, 2, 2, 3])
            chosen = []
            for _ in range(n):
                chosen.append(ref(I, allow_absent=False, exclude=() if rng.random() < selfref else
                                  tuple(c for c in chosen if isinstance(c, str))))
            t = ref(I, allow_absent=False,
                    exclude=() if rng.random() < selfref else tuple(c for c in chosen if isinstance(c, str)))
            return B.msg_doc(kind, message_id, ro_id, story_ref=sref, ids=chosen, target=t, **kw)
        if kind == 'EAItemSwap':
            a = ref(I, allow_absent=False)
            b = ref(I, allow_absent=False, exclude=() if rng.random() < selfref else (a,))
            return B.msg_doc(kind, message_id, ro_id, story_ref=sref, ids=[a, b], **kw)

    if kind == 'roReplace':
        txt = rand_ro(rng, pool=pool, timing=timing, ids=ids, rich=rich, ro_id=ro_id,
                      message_id=message_id, pretty=pretty)
        attrs = rng.choice(['', '', ' rev="7"', ' rev="7" lang="en-GB"'])      # attributes on the message element itself
        txt = txt.replace('<roCreate', '<roReplace').replace('</roCreate>', '</roReplace>')
        # (the message element itself - the one that starts with its roID -, not a vendor element of that name)
        import re
        return re.sub(r'<roReplace>(\s*<roID>)', lambda m_: '<roReplace' + attrs + '>' + m_.group(1), txt, count=1)
    if kind == 'roMetadataReplace':
        used = set()
        carried = [E('roSlug', rng.choice(pool))]
        if rng.random() < 0.4:
            carried.append(E('roEdStart', '2021-02-03T04:05:06'))
        for _ in range(rng.randint(0, 3)):
            mm = rand_meta(rng, pool, used)
            if mm is not None:
                carried.append(mm)
        return B.msg_doc(kind, message_id, ro_id, carried=carried, **kw)
    if kind in ('roReadyToAir', 'roDelete'):
        return B.msg_doc(kind, message_id, ro_id, **kw)
    raise ValueError(kind)


def drop_one_element(rng, doc):
    """Delete one element (any element below the root) from a well-formed
    document: messages that lack a tag the schema requires, in every position."""
    from xml.etree import ElementTree as ET
    try:
        root = ET.fromstring(doc)
    except ET.ParseError:
        return doc
    pairs = [(p, c) for p in root.iter() for c in p]
    if not pairs:
        return doc
    parent, child = rng.choice(pairs)
    parent.remove(child)
    return ET.tostring(root, encoding='unicode').replace('\r', '&#13;')


def rand_message(rng, state, kind, message_id, ids, **kw):
    other_ro = kw.pop('other_ro', 0.0)
    drop = kw.pop('drop', 0.0)
    if other_ro and rng.random() < other_ro:
        kw['ro_id'] = 'SOME OTHER RO'      # a message addressed to another running order is merged all the same
    doc = _rand_message(rng, state, kind, message_id, ids, **kw)
    if drop and rng.random() < drop:
        return drop_one_element(rng, doc)
    return xml_noise(rng, doc) if kw.get('rich', True) else doc


# --------------------------------------------------------------------------
# bounded-exhaustive grids

def simple_story(story_id, n_items=2, item_prefix=None, inter=False, timed=True, dur=None):
    pre = item_prefix if item_prefix is not None else story_id + '.'
    kids = []
    for k in range(n_items):
        kids.append(B.item(f'{pre}{k}', f'item {k}'))
        if inter:
            kids.append(E('p', f'para {k}'))
    t = B.timing(text_time=dur if dur is not None else 1, media_time=2) if timed else None
    return B.story(story_id, 'slug ' + story_id, kids, timing_el=t)


def grid_ro(story_ids, layout='none', pretty=False, inter=False, timed=True, items=2):
    stories = [simple_story(s, items, inter=inter, timed=timed, dur=k + 1) for k, s in enumerate(story_ids)]
    first, entries = [], []
    if layout in ('before', 'everywhere'):
        first = [E('roChannel', 'ch'), E('roEdDur', '00:10:00')]
    for k, s in enumerate(stories):
        entries.append(s)
        if layout in ('between', 'everywhere') and k < len(stories) - 1:
            entries.append(E('macroIn' if k % 2 == 0 else 'roTrigger', f'm{k}') if k < 2 else
                           E('mosExternalMetadata', None, E('mosSchema', f'http://between/{k}'),
                             E('mosPayload', None, E('v', str(k)))))
    if layout in ('after', 'everywhere'):
        entries.append(E('macroOut', 'out'))
    return B.ro_doc('RO', 1, entries, ed_start='2020-01-01T12:30:00', meta_first=first, pretty=pretty,
                    bare=(layout == 'bare'))


def _k_tuples(pool, kmax):
    for k in range(1, kmax + 1):
        for t in itertools.permutations(pool, k):
            yield list(t)


def story_grid_messages(S, kmax=3, full=True, unk='ZZ-unknown'):
    """Yield (kind, kwargs) for every story-level case against story IDs S."""
    UNK = unk
    new = lambda i: simple_story(i, 1)
    tgt_all = list(S) + [UNK, BLANK]
    # append
    yield 'roStoryAppend', dict(carried=[new('N1')])
    yield 'roStoryAppend', dict(carried=[new('N1'), new('N2')])
    # insert
    for kind in ('roStoryInsert', 'EAStoryInsert'):
        tg = tgt_all + ([ABSENT, ('absent', 'noel')] if kind == 'EAStoryInsert' else [])
        for t in tg:
            kw = {}
            if t == ('absent', 'noel'):
                t, kw = ABSENT, {'target_el': False}
            yield kind, dict(target=t, carried=[new('N1')], **kw)
            yield kind, dict(target=t, carried=[new('N1'), new('N2'), new('N3')], **kw)
            for d in (S[:1] + S[-1:] if not full else S):
                yield kind, dict(target=t, carried=[new('N1'), new(d), new('N2')], **kw)
                yield kind, dict(target=t, carried=[new(d), new('N1')], **kw)
    # replace
    for kind in ('roStoryReplace', 'EAStoryReplace'):
        for t in tgt_all:
            yield kind, dict(target=t, carried=[])          # replace with nothing (outside the order claim)
            yield kind, dict(target=t, carried=[new('N1')])
            yield kind, dict(target=t, carried=[new('N1'), new('N2')])
            if isinstance(t, str):
                yield kind, dict(target=t, carried=[new(t)])
                yield kind, dict(target=t, carried=[new('N1'), new(t), new('N2')])
    # send
    for k in list(S) + [UNK, BLANK]:
        yield 'roStorySend', dict(story_ref=k, body=[E('p', 'sent'), B.item('si1', 'x', tag='storyItem')],
                                  fields=[E('storySlug', 'resent'), 'BODY', B.timing(text_time=4, media_time=4)])
    # a roStorySend that lacks its storyBody (not schema-shaped: only "raise => unchanged" is judged)
    for k in list(S):
        yield 'roStorySend', dict(story_ref=k, fields=[E('storySlug', 'no body'), 'NOBODY'])
    # roStoryMove
    for s in list(S) + [UNK, BLANK]:
        for t in list(S) + [UNK, BLANK, ABSENT]:
            yield 'roStoryMove', dict(ids=[s], target=t)
    # delete
    for kind in ('roStoryDelete', 'EAStoryDelete'):
        pool = list(S) + [UNK, BLANK]
        for tup in _k_tuples(pool, 2):
            yield kind, dict(ids=tup)
        for tup in itertools.islice(itertools.permutations(pool, 3), 0, None, 1 if full else 5):
            yield kind, dict(ids=list(tup))
        for s in S[:2]:
            yield kind, dict(ids=[s, s])
        yield kind, dict(ids=[UNK, 'ZZ-2'])
        if kind == 'EAStoryDelete':
            # an element_target that the operation does not need: must be ignored
            for tup in _k_tuples(list(S) + [UNK], 2):
                rest = [x for x in S if x not in tup]
                for t in rest[:2] + [BLANK, 'ZZ-target']:
                    yield kind, dict(ids=tup, target=t)
    # EA move
    for tup in _k_tuples(list(S), kmax):
        rest = [x for x in S if x not in tup]
        for t in rest + [BLANK, ABSENT, ('absent', 'noel'), UNK]:
            kw = {}
            if t == ('absent', 'noel'):
                t, kw = ABSENT, {'target_el': False}
            yield 'EAStoryMove', dict(ids=tup, target=t, **kw)
        yield 'EAStoryMove', dict(ids=tup, target=tup[-1])        # self-referential
    for tup in _k_tuples(list(S), min(kmax, 2)):
        for pos in range(len(tup) + 1):
            bad = tup[:pos] + [UNK] + tup[pos:]
            for t in [x for x in S if x not in tup][:2] + [BLANK]:
                yield 'EAStoryMove', dict(ids=bad, target=t)
    if S:
        yield 'EAStoryMove', dict(ids=[S[0], S[0]], target=BLANK)
        yield 'EAStoryMove', dict(ids=[BLANK], target=S[-1])
    # swap
    pool = list(S) + [UNK, BLANK]
    for a in pool:
        for b in pool:
            for te in (True, False):
                yield 'EAStorySwap', dict(ids=[a, b], target=BLANK if te else ABSENT, target_el=te)


def item_grid_messages(story_id, I, other_story=None, kmax=3, full=True, unk='zz-unknown', elsewhere=None):
    """Yield (kind, kwargs) for every item-level case against items I of story_id."""
    UNK = unk
    new = lambda i: B.item(i, 'new ' + i, [E('objID', 'o-' + i)])
    srefs = [story_id]
    tgt_all = list(I) + [UNK, BLANK]
    for sref in srefs:
        for kind in ('roItemInsert', 'EAItemInsert'):
            for t in tgt_all:
                if elsewhere:
                    # the inserted item carries an ID that only another story uses
                    yield kind, dict(story_ref=sref, target=t, carried=[new(elsewhere), new('n2')])
                yield kind, dict(story_ref=sref, target=t, carried=[new('n1')])
                yield kind, dict(story_ref=sref, target=t, carried=[new('n1'), new('n2'), new('n3')])
        for kind in ('roItemReplace', 'EAItemReplace'):
            for t in tgt_all:
                yield kind, dict(story_ref=sref, target=t, carried=[new('n1')])
                yield kind, dict(story_ref=sref, target=t, carried=[new('n1'), new('n2')])
                if isinstance(t, str):
                    yield kind, dict(story_ref=sref, target=t, carried=[new(t)])
                    yield kind, dict(story_ref=sref, target=t, carried=[new('n1'), new(t)])
        for kind in ('roItemDelete', 'EAItemDelete'):
            pool = list(I) + [UNK, BLANK]
            for tup in _k_tuples(pool, 2):
                yield kind, dict(story_ref=sref, ids=tup)
            for tup in itertools.islice(itertools.permutations(pool, 3), 0, None, 1 if full else 5):
                yield kind, dict(story_ref=sref, ids=list(tup))
            for s in I[:2]:
                yield kind, dict(story_ref=sref, ids=[s, s])
                for o in [x for x in I if x != s][-1:]:
                    yield kind, dict(story_ref=sref, ids=[s, s, o])      # a repeat, then one more ID
            if elsewhere:
                yield kind, dict(story_ref=sref, ids=[elsewhere])       # an ID only ANOTHER story has
                for s in I[:1]:
                    yield kind, dict(story_ref=sref, ids=[elsewhere, s])
        for kind in ('roItemMoveMultiple', 'EAItemMove'):
            if elsewhere:
                for t in (list(I[:1]) + [BLANK]):
                    yield kind, dict(story_ref=sref, ids=[elsewhere], target=t)
                    for s in I[-1:]:
                        if s != t:
                            yield kind, dict(story_ref=sref, ids=[s, elsewhere], target=t)
                for s in I[:1]:
                    yield kind, dict(story_ref=sref, ids=[s], target=elsewhere)
            for tup in _k_tuples(list(I), kmax):
                rest = [x for x in I if x not in tup]
                for t in rest + [BLANK, UNK]:
                    yield kind, dict(story_ref=sref, ids=tup, target=t)
                yield kind, dict(story_ref=sref, ids=tup, target=tup[0])     # self-referential
            for tup in _k_tuples(list(I), min(kmax, 2)):
                for pos in range(len(tup) + 1):
                    bad = tup[:pos] + [UNK] + tup[pos:]
                    for t in [x for x in I if x not in tup][:2] + [BLANK]:
                        yield kind, dict(story_ref=sref, ids=bad, target=t)
            if I:
                yield kind, dict(story_ref=sref, ids=[I[0], I[0]], target=BLANK)
                yield kind, dict(story_ref=sref, ids=[BLANK], target=I[-1])
        pool = list(I) + [UNK, BLANK]
        for a in pool:
            for b in pool:
                yield 'EAItemSwap', dict(story_ref=sref, ids=[a, b])
        if elsewhere:
            for a in I[:1]:
                yield 'EAItemSwap', dict(story_ref=sref, ids=[a, elsewhere])
                yield 'EAItemSwap', dict(story_ref=sref, ids=[elsewhere, a])
            for kind in ('roItemReplace', 'EAItemReplace'):
                yield kind, dict(story_ref=sref, target=elsewhere, carried=[new('n1')])
        if other_story:
            # element_source also holds a storyID - of another story that has items with the same IDs
            for tup in _k_tuples(list(I), min(kmax, 2)):
                rest = [x for x in I if x not in tup]
                for t in rest[:2] + [BLANK]:
                    yield 'EAItemMove', dict(story_ref=sref, ids=tup, target=t, source_story=other_story)
                yield 'EAItemDelete', dict(story_ref=sref, ids=tup, source_story=other_story)
                if len(tup) == 2:
                    yield 'EAItemSwap', dict(story_ref=sref, ids=tup, source_story=other_story)
    # addressed story unknown / blank, for every kind
    for sref in ('ZZ-nostory', BLANK):
        some = I[:1] or ['q']
        yield 'roItemInsert', dict(story_ref=sref, target=some[0], carried=[new('n1')])
        yield 'EAItemInsert', dict(story_ref=sref, target=some[0], carried=[new('n1')])
        yield 'roItemReplace', dict(story_ref=sref, target=some[0], carried=[new('n1')])
        yield 'EAItemReplace', dict(story_ref=sref, target=some[0], carried=[new('n1')])
        yield 'roItemDelete', dict(story_ref=sref, ids=some)
        yield 'EAItemDelete', dict(story_ref=sref, ids=some)
        yield 'roItemMoveMultiple', dict(story_ref=sref, ids=some, target=BLANK)
        yield 'EAItemMove', dict(story_ref=sref, ids=some, target=BLANK)
        yield 'EAItemSwap', dict(story_ref=sref, ids=(some * 2)[:2] if len(I) < 2 else I[:2])


# --------------------------------------------------------------------------
# full product of reference shapes per kind (C03 / C12 / C05 workloads)

SHAPES = ('existing', 'unknown', 'blank', 'absent')


def _concrete(shape, pool, used, n=[0]):
    if shape == 'existing':
        cand = [x for x in pool if x not in used] or list(pool)
        if not cand:
            return 'UNK-none'
        c = cand[0]
        used.append(c)
        return c
    if shape == 'unknown':
        n[0] += 1
        return 'UNK-%d' % n[0]
    if shape == 'blank':
        return BLANK
    return ABSENT


def shape_product(rng, state, ids, pool, rich=True, kinds=None):
    """Yield (kind, shape_vector, msg_kwargs) for every kind x every
    combination of reference shapes of its reference slots, aimed at `state`."""
    S = [s for s in state.story_ids if s is not None]
    rng.shuffle(S)
    kinds = kinds or B.ALL_KINDS

    def stories(n=1):
        return [new_story_for(rng, ids.new(), pool, rich=rich) for _ in range(n)]

    def items(n=1):
        ic = Ids('p%d-' % rng.randint(0, 9999))
        return [rand_item(rng, ic.new(), pool, rich) for _ in range(n)]

    for kind in kinds:
        if kind in ('roStoryAppend', 'roReplace', 'roMetadataReplace', 'roReadyToAir', 'roDelete'):
            continue
        if kind in B.STORY_KINDS:
            if kind in ('roStoryInsert', 'roStoryReplace', 'EAStoryInsert', 'EAStoryReplace'):
                for t in SHAPES:
                    yield kind, (t,), dict(target=_concrete(t, S, []), carried=stories(rng.choice([1, 2])))
                if kind.startswith('EA'):
                    yield kind, ('noel',), dict(target=ABSENT, target_el=False, carried=stories(1))
                if S:
                    # reference tag missing while the message CARRIES a story whose ID is in the running order
                    same = new_story_for(rng, S[0], pool, rich=rich)
                    yield kind, ('absent+carried-existing',), dict(target=ABSENT, carried=[same] + stories(1))
                    yield kind, ('blank+carried-existing',), dict(target=BLANK, carried=stories(1) + [
                        new_story_for(rng, S[-1], pool, rich=rich)])
            elif kind == 'roStorySend':
                for t in SHAPES:
                    yield kind, (t,), dict(story_ref=_concrete(t, S, []),
                                           body=[E('p', 'x'), rand_item(rng, 'ss-i', pool, rich, tag='storyItem')],
                                           fields=[E('storySlug', 'sent'), 'BODY'])
            elif kind == 'roStoryMove':
                for a in SHAPES:
                    for t in SHAPES:
                        used = []
                        yield kind, (a, t), dict(ids=[_concrete(a, S, used)], target=_concrete(t, S, used))
            elif kind in ('roStoryDelete', 'EAStoryDelete', 'EAStorySwap'):
                for a in SHAPES:
                    for b in SHAPES:
                        used = []
                        lst = [r for r in (_concrete(a, S, used), _concrete(b, S, used)) if r != ABSENT]
                        yield kind, (a, b), dict(ids=lst)
            elif kind == 'EAStoryMove':
                for a in SHAPES:
                    for b in SHAPES:
                        for t in SHAPES:
                            used = []
                            lst = [r for r in (_concrete(a, S, used), _concrete(b, S, used)) if r != ABSENT]
                            yield kind, (a, b, t), dict(ids=lst, target=_concrete(t, S, used))
                yield kind, ('existing', 'noel'), dict(ids=S[:1] or ['q'], target=ABSENT, target_el=False)
        else:
            for sshape in SHAPES:
                sref = _concrete(sshape, S, [])
                st = state.story(sref) if isinstance(sref, str) else None
                if st is None and S:
                    st = state.story(S[-1])
                I = [i for i in (item_ids(st) if st is not None else []) if i is not None]
                if kind in ('roItemInsert', 'roItemReplace', 'EAItemInsert', 'EAItemReplace'):
                    for t in SHAPES:
                        yield kind, (sshape, t), dict(story_ref=sref, target=_concrete(t, I, []),
                                                      carried=items(rng.choice([1, 2])))
                    if I:
                        same = rand_item(rng, I[0], pool, rich)
                        yield kind, (sshape, 'absent+carried-existing'), dict(story_ref=sref, target=ABSENT,
                                                                             carried=[same] + items(1))
                        yield kind, (sshape, 'blank+carried-existing'), dict(story_ref=sref, target=BLANK,
                                                                            carried=items(1) + [rand_item(rng, I[-1], pool, rich)])
                elif kind in ('roItemDelete', 'EAItemDelete', 'EAItemSwap'):
                    for a in SHAPES:
                        for b in SHAPES:
                            used = []
                            lst = [r for r in (_concrete(a, I, used), _concrete(b, I, used)) if r != ABSENT]
                            yield kind, (sshape, a, b), dict(story_ref=sref, ids=lst)
                elif kind in ('roItemMoveMultiple', 'EAItemMove'):
                    for a in SHAPES:
                        for b in SHAPES:
                            for t in SHAPES:
                                used = []
                                lst = [r for r in (_concrete(a, I, used), _concrete(b, I, used)) if r != ABSENT]
                                yield kind, (sshape, a, b, t), dict(story_ref=sref, ids=lst,
                                                                    target=_concrete(t, I, used))
