"""Accessor sweep shared by C15 / C16 / C17: call every documented read
accessor of the running order, its stories and items at a state; the runtime
contracts (mon/contracts.py, attached to the real properties) compare every
returned value with the reference functions; exceptions are recorded by the
guard wrappers and by the sweep itself."""
from xml.etree import ElementTree as ET

from .. import events as EV
from ..contracts import ref_story_table, _child

RO_ACC = ('stories', 'duration', 'start_time', 'end_time', 'script', 'body', 'completed', 'ro_slug', 'ro_id',
          'message_id')
STORY_ACC = ('id', 'slug', 'items', 'duration', 'offset', 'start_time', 'end_time', 'script', 'body')
ITEM_ACC = ('id', 'slug', 'type', 'object_id', 'mos_id', 'note')
# an accessor that raises violates C15, and also the property that says what it must return
ALSO = {'script': 'C17', 'body': 'C17', 'duration': 'C16', 'offset': 'C16', 'start_time': 'C16', 'end_time': 'C16'}


def state_class(xml_text):
    root = ET.fromstring(xml_text)
    rc = _child(root, 'roCreate')
    try:
        tab = ref_story_table(rc)
    except (ValueError, TypeError):
        return ('unparseable',)
    n = len(tab['rows'])
    timed = sum(1 for r in tab['rows'] if r['duration'] is not None)
    mix = 'empty' if n == 0 else 'all' if timed == n else 'none' if timed == 0 else 'mixed'
    ex = (any(r['ex_start'] for r in tab['rows']), any(r['ex_end'] for r in tab['rows']))
    paras = sum(1 for st in rc if st.tag == 'story' for p in st if p.tag == 'p')
    items = sum(1 for st in rc if st.tag == 'story' for p in st if p.tag == 'item')
    return (min(n, 6), mix, tab['start0'] is not None, ex, min(paras, 4), min(items, 4))


_SWEEPS = [0]


def sweep(s, ro, state_xml, ctx=None, after=None):
    """Returns number of accessor calls made."""
    _SWEEPS[0] += 1
    if _SWEEPS[0] % 9 == 4 and not (ctx or {}).get('copied'):
        # the running order a caller keeps may be a COPY of the one that was merged into (copy.deepcopy, a pickle
        # round trip through a queue or a cache): the same document, so the same answers
        import copy
        import pickle
        try:
            dup = copy.deepcopy(ro) if _SWEEPS[0] % 2 else pickle.loads(pickle.dumps(ro))
        except Exception as e:
            dup = None
            s.hist['states_that_cannot_be_copied:' + type(e).__name__] += 1
        if dup is not None:
            s.hist['states_swept_as_a_copy'] += 1
            sweep(s, dup, state_xml, dict(ctx or {}, copied='deepcopy' if _SWEEPS[0] % 2 else 'pickle'), after)
    calls = 0
    wit = {'type': 'state', 'xml': state_xml}
    if ctx:
        wit['context'] = ctx
    # roID and roSlug are REQUIRED children of the running-order element; a state that lacks one (left by a
    # roReplace that had lost it) is outside what C15 claims for ro_id / ro_slug ("absent OPTIONAL data yields None")
    required_absent = set()
    try:
        rc_ = _child(ET.fromstring(state_xml), 'roCreate')
        for acc_, tag_ in (('ro_id', 'roID'), ('ro_slug', 'roSlug')):
            if rc_ is None or rc_.find(tag_) is None:
                required_absent.add(acc_)
    except ET.ParseError:
        pass

    # every third state is swept with the library's own warnings turned into errors (the caller's choice of
    # filter is not a licence for a read accessor to raise: the unchanged accessors never warn)
    import warnings as W_
    strict_filter = (s.evaluations % 3 == 1)
    lib_warning = getattr(s.exc, 'MosRoMgrWarning', Warning)
    if strict_filter:
        s.hist['states_swept_with_library_warnings_as_errors'] += 1

    def call(obj, name, cls):
        nonlocal calls
        calls += 1
        try:
            if strict_filter:
                with W_.catch_warnings():
                    W_.simplefilter('error', lib_warning)
                    return True, getattr(obj, name)
            return True, getattr(obj, name)
        except Exception as e:
            s.hist['accessor_raised:%s.%s' % (cls, name)] += 1
            if cls == 'RunningOrder' and name in required_absent and isinstance(e, AttributeError):
                s.ooc['required header tag absent: RunningOrder.%s raises' % name] += 1
                return False, None
            if s.prop in ('C15', ALSO.get(name)):
                s.custom_violation('accessor-raised', {'accessor': '%s.%s' % (cls, name),
                                                       'exc': [c.__name__ for c in type(e).__mro__][:2],
                                                       'msg': str(e)[:200]}, wit, msg_kind=cls + '.' + name,
                                   status=type(e).__name__)
            else:
                s.other['C15:accessor-raised'] += 1
            return False, None

    stories = None
    for name in RO_ACC:
        ok, val = call(ro, name, 'RunningOrder')
        if name == 'stories' and ok:
            stories = val
    # direct envelope reads (no contract attached to these two)
    try:
        root = ET.fromstring(state_xml)
        want_mid = int(root.find('messageID').text)
        want_rid = root.find('roCreate').find('roID').text
        ok1, got_mid = call(ro, 'message_id', 'RunningOrder')
        ok2, got_rid = call(ro, 'ro_id', 'RunningOrder')
        if (ok1 and got_mid != want_mid) or (ok2 and got_rid != want_rid):
            if s.prop == 'C15':
                s.custom_violation('accessor-disagrees-with-xml', {'accessor': 'message_id/ro_id',
                                                                   'got': [got_mid, got_rid],
                                                                   'want': [want_mid, want_rid]}, wit,
                                   msg_kind='RunningOrder.envelope')
    except (AttributeError, ValueError, TypeError):
        pass
    for st in stories or []:
        items = None
        for name in STORY_ACC:
            ok, val = call(st, name, 'Story')
            if name == 'items' and ok:
                items = val
        for it in items or []:
            for name in ITEM_ACC:
                call(it, name, 'Item')
    # contract results
    for f in EV.drain_acc():
        key = '%s:%s.%s' % (f['kind'], f['cls'], f['name'])
        if f['kind'] == 'raise':
            # already reported above when the sweep called it; internal raises are reported here
            if f['cls'] == 'RunningOrder' and f['name'] in required_absent and 'AttributeError' in (f.get('exc') or []):
                continue
            if s.prop in ('C15', ALSO.get(f['name'])):
                s.custom_violation('accessor-raised', {'accessor': '%s.%s' % (f['cls'], f['name']),
                                                       'exc': f.get('exc'), 'msg': f.get('msg')}, wit,
                                   msg_kind='%s.%s' % (f['cls'], f['name']), status=(f.get('exc') or ['?'])[0])
            else:
                s.other['C15:accessor-raised'] += 1
            continue
        if f['prop'] == s.prop or s.prop == 'C15':      # C15 = every accessor agrees with the document
            s.custom_violation('accessor-disagrees-with-xml',
                               {'accessor': '%s.%s' % (f['cls'], f['name']), 'got': f['got'], 'want': f['want']},
                               wit, msg_kind='%s.%s' % (f['cls'], f['name']))
        else:
            s.other['%s:accessor-disagrees:%s.%s' % (f['prop'], f['cls'], f['name'])] += 1
    s.evaluations += 1
    if s.hist['acc_samples'] < 2 and s.evaluations % 11 == 3 and stories:
        try:
            st0 = stories[0]
            s.hist['acc_samples'] += 1
            s.samples.insert(0, {'state_class': repr(state_class(state_xml)), 'after_message': after,
                              'accessor_calls_at_this_state': calls,
                              'ro.duration': repr(ro.duration), 'ro.start_time': repr(ro.start_time),
                              'ro.end_time': repr(ro.end_time), 'ro.script[:3]': ro.script[:3],
                              'stories': [(x.id, x.duration, x.offset) for x in stories[:5]],
                              'story0.body[:4]': [b if isinstance(b, str) else 'Item(%s)' % b.id for b in st0.body[:4]],
                              'xml': state_xml[:500]})
        except Exception:
            pass
    try:
        s.note_sig(('state', state_class(state_xml), after))
    except ET.ParseError:
        pass
    s.hist['accessor_calls'] += calls
    return calls


def replay_state(s, data):
    w = data['witness']
    if w.get('type') == 'two-ros':
        return judge_two(s, w['a'], w['b'], w.get('n', 0), w.get('timing', 'timed'), w.get('again', True))
    if w.get('type') != 'state':
        from . import common as K
        return K.replay_transition(s, data)
    ro = s.load(w['xml'])
    sweep(s, ro, w['xml'])


def acc_gates(agg, names, reasons):
    for n in names:
        if agg['counts'].get('acc:' + n, 0) == 0:
            reasons.append('accessor contract %s was never evaluated' % n)


def interleaved(s, i, timing='timed'):
    """Two running orders alive at once that share story IDs at different
    offsets: list A's stories, list B's, THEN read A's story values - state
    shared between instances (class attributes, mutable defaults) shows here."""
    from .. import gen, build as B
    from ..contracts import ref_story_table, _child, feq
    rng = s.rng('interleaved', i)
    n = rng.randint(2, 6)
    names = ['Q%d' % k for k in range(n)]

    def make(order):
        stories = []
        for nm in order:
            t = gen.rand_timing(rng, timing)
            stories.append(B.story(nm, 'slug', [B.item(nm + '.i', 'x')], timing_el=t))
        return B.ro_doc('RO', 1, stories, ed_start=rng.choice(['2020-01-01T12:30:00', '2021-06-01T08:00:05', '2021-03-28T00:59:57']))
    ta = make(names)
    tb = make(rng.sample(names, n) + ['QX'])
    judge_two(s, ta, tb, n, timing, rng.random() < 0.5)


def judge_two(s, ta, tb, n, timing, again):
    from ..contracts import ref_story_table, _child, feq
    ra, rb = s.load(ta), s.load(tb)
    try:
        sa = ra.stories
        sb = rb.stories
        _ = [x.offset for x in sb]
        sa2 = None
        if again:
            sa2 = rb.duration      # anything that lists B again
        got = [(x.id, x.offset, x.start_time, x.end_time, x.duration) for x in sa]
    except Exception as e:
        got = e
    EV.drain_acc()
    tab = ref_story_table(_child(ET.fromstring(ta), 'roCreate'))
    s.evaluations += 1
    s.note_sig(('interleaved', n, tab['all_timed'], timing))
    s.hist['interleaved_cases'] += 1
    if isinstance(got, Exception):
        if s.prop == 'C15':
            s.custom_violation('accessor-raised', {'accessor': 'Story.* (held across another listing)',
                                                   'exc': type(got).__name__}, {'type': 'two-ros', 'a': ta, 'b': tb, 'n': n, 'timing': timing, 'again': again},
                               msg_kind='Story.offset', status='interleaved')
        return
    if not tab['all_timed'] or not tab['unique']:
        return
    for (gid, goff, gst, gen_, gdur), row in zip(got, tab['rows']):
        ok = gid == row['id'] and feq(goff, row['offset']) and gst == row['start'] and gen_ == row['end'] and feq(gdur, row['duration'])
        if not ok and s.prop in ('C15', 'C16'):
            s.custom_violation('story-values-change-when-another-running-order-is-listed',
                               {'story': gid, 'got': repr((goff, gst, gen_))[:200],
                                'want': repr((row['offset'], row['start'], row['end']))[:200]},
                               {'type': 'two-ros', 'a': ta, 'b': tb, 'n': n, 'timing': timing, 'again': again}, msg_kind='Story.offset@ro', status='interleaved')
            return
