"""C19 - the command line reports and writes exactly what the library computes."""
import contextlib
import io
import os
import shutil
import subprocess
import sys
import tempfile
import warnings as W

from .. import build as B
from .. import events as EV
from .. import gen
from ..canon import Abs
from . import common as K

META = {
    'rule': ('File lists of length 1-8 mixing valid messages of every kind, completed running orders, non-XML files, '
             'unknown XML, missing paths and directories x detect / inspect / merge x all 2^3 combinations of -i -n -o, '
             'and -b/-p/-s/-k against the fake bucket; mostly in-process mosromgr.cli.main(argv) with redirected '
             'streams, plus a sample through a fresh interpreter running the console-script entry point for true exit '
             'statuses. Oracle: detect - the stdout lines "f: Class[ (completed)]" of the classifiable files, in '
             'order, with the class the library assigns, every other file named on stderr, all files processed; '
             'inspect - additionally the lines mo.inspect() prints when called directly appear after the file\'s '
             'detect line, in order; merge - stdout (or the -o file) is exactly str(mc) of '
             'MosCollection.from_files(files, allow_incomplete=-i) merged with strict = not -n, status 0/None on '
             'success, status 2 and non-empty stderr on any error. Signature = (command, file-kind pattern, options, '
             'outcome).'),
    'workers': {'quick': 8, 'thorough': 16},
    'watchdog': {'quick': 600, 'thorough': 3600},
}


def FS_NAME(name):
    """A file name with non-ASCII letters - where the file system encoding of this process can spell it."""
    try:
        name.encode(sys.getfilesystemencoding())
        return name
    except UnicodeError:
        return name.encode('ascii', 'replace').decode('ascii').replace('?', '_')


def run_cli(argv):
    """In-process CLI run.  Returns (rc, stdout, stderr)."""
    import mosromgr.cli as cli
    out, err = io.StringIO(), io.StringIO()
    rc = None
    with contextlib.redirect_stdout(out), contextlib.redirect_stderr(err):
        try:
            # the argument vector is any sequence of strings (a list, a tuple)
            rc = cli.main(tuple(argv) if len(argv) % 2 else list(argv))
        except SystemExit as e:
            rc = e.code
        except BaseException as e:       # a traceback instead of "mosromgr error: ..." and status 2
            rc = 'EXC:' + type(e).__name__
    return rc, out.getvalue(), err.getvalue()


def lib_inspect_lines(mo):
    out = io.StringIO()
    with contextlib.redirect_stdout(out):
        mo.inspect()
    return [ln for ln in out.getvalue().splitlines()]


def write_doc(rng, name, doc):
    """Write a document as UTF-8, or (sometimes) as declared ISO-8859-1 / UTF-16 bytes:
    the library parses bytes, so all of these are valid MOS files."""
    r = rng.random()
    if r < 0.7:
        data = doc.encode('utf-8')
    elif r < 0.85:
        data = ('<?xml version="1.0" encoding="ISO-8859-1"?>\n' + doc).encode('latin-1', 'xmlcharrefreplace')
    else:
        data = ('<?xml version="1.0" encoding="UTF-16"?>\n' + doc).encode('utf-16')
    with open(name, 'wb') as f:
        f.write(data)


def odd_spelling(rng, path):
    """The same file under a name that is not in normal form: the reports must show the
    name as it was listed."""
    r = rng.random()
    d, b = os.path.split(path)
    if r < 0.8:
        return path
    if r < 0.87:
        return d + '//' + b
    if r < 0.94:
        return d + '/./' + b
    return os.path.join(d, '..', os.path.basename(d), b)


def read_text_exact(path):
    with open(path, encoding='utf-8', newline='') as f:
        return f.read()


PIPE_DOCS = {}        # '/dev/fd/N' -> (document text, read fd): a valid message that is not a regular file


def make_pipe(doc):
    """A path the library can read a message from although it is no regular file: the read end
    of a pipe that already holds the whole document (small enough for the pipe buffer)."""
    data = doc.encode('utf-8')
    if len(data) > 30000:
        return None
    r, w = os.pipe()
    os.write(w, data)
    os.close(w)
    path = '/dev/fd/%d' % r
    PIPE_DOCS[path] = (doc, r)
    return path


def close_pipes(files):
    for f, k in files:
        if k == 'pipe' and f in PIPE_DOCS:
            try:
                os.close(PIPE_DOCS.pop(f)[1])
            except OSError:
                pass


EA_SHAPES_OUTSIDE_TABLE = [('REPLACE', False, True), ('REPLACE', True, True), ('DELETE', True, False), ('DELETE', True, True),
                           ('INSERT', False, True), ('INSERT', True, True), ('SWAP', True, False), ('SWAP', True, True),
                           ('MOVE', False, True), ('MOVE', True, False)]


def make_files(s, rng, tmpdir, n, for_merge=False):
    """Returns list of (path, kind) with kind in valid/completed/nonxml/unknown/missing/dir."""
    pool = gen.text_pool('hostile')
    files = []
    ro_txt = gen.rand_ro(rng, n_stories=rng.randint(1, 4), pool=pool, message_id=1, pretty=rng.random() < 0.5)
    state = Abs(ro_txt)
    ids = gen.Ids('c')
    for k in range(n):
        r = rng.random()
        name = os.path.join(tmpdir, rng.choice(['f%02d-%d.mos.xml', 'f %02d %d.mos.xml', FS_NAME('fé%02d-%d ü.mos.xml'), 'f[%02d]-%d.mos.xml', 'f%02d-%d*?.mos.xml']) %
                            (k, rng.randint(0, 999)))
        name = odd_spelling(rng, name)
        if r < 0.6:
            kind = rng.choice(B.ALL_KINDS + ('roCreate',))
            if kind == 'roCreate':
                doc = gen.rand_ro(rng, n_stories=rng.randint(0, 3), pool=pool, message_id=200 + k,
                                  pretty=rng.random() < 0.5)
            else:
                doc = gen.rand_message(rng, state, kind, 10 + k, ids, pool=pool, shape_weights=(0.9, 0.05, 0.05, 0))
            pipe = make_pipe(doc) if (rng.random() < 0.08 and os.path.exists('/dev/fd')) else None
            if pipe:
                files.append((pipe, 'pipe'))
            else:
                write_doc(rng, name, doc)
                files.append((name, 'valid'))
        elif r < 0.68:
            ro = s.load(ro_txt)
            ro2, err, _ = s.add(ro, s.load(B.msg_doc('roDelete', 99)))
            EV.drain()
            open(name, 'w', encoding='utf-8').write(str(ro2))
            files.append((name, 'completed'))
        elif r < 0.76:
            open(name, 'w').write(rng.choice(['not xml at all', '<mos><unclosed>', '', '{"json": 1}']))
            files.append((name, 'nonxml'))
        elif r < 0.80:
            # a roElementAction with a known operation whose target / source shape is not in the library's table
            op_, ti_, si_ = rng.choice(EA_SHAPES_OUTSIDE_TABLE)
            open(name, 'w').write(
                '<mos><mosID>M</mosID><messageID>%d</messageID><roElementAction operation="%s"><roID>RO</roID>'
                '<element_target><storyID>A</storyID>%s</element_target><element_source>%s</element_source>'
                '</roElementAction></mos>' % (40 + k, op_, '<itemID>i1</itemID>' if ti_ else '',
                                              '<itemID>i2</itemID>' if si_ else '<storyID>B</storyID>'))
            files.append((name, 'unknown'))
        elif r < 0.84:
            open(name, 'w').write(rng.choice(['<mos><messageID>1</messageID><foo/></mos>', '<html/>',
                                              '<mos><roElementAction operation="FROB"><roID>x</roID>'
                                              '<element_source><storyID>a</storyID></element_source>'
                                              '</roElementAction></mos>']))
            files.append((name, 'unknown'))
        elif r < 0.92:
            files.append((rng.choice([os.path.join(tmpdir, 'missing-%d.mos.xml' % k), '~mosromgr-no-such-user/ro-%d.xml' % k,
                                      '', tmpdir + '/']), 'missing'))
        else:
            d = os.path.join(tmpdir, 'dir-%d' % k)
            os.makedirs(d, exist_ok=True)
            files.append((d, 'dir'))
    return files


def check_detect_inspect(s, rng, tmpdir, idx, inspect):
    files = make_files(s, rng, tmpdir, rng.randint(1, 8))
    # make sure the interesting pattern good-bad-good occurs often
    if rng.random() < 0.4 and len(files) >= 3:
        files[1] = (os.path.join(tmpdir, 'missing-mid.mos.xml'), 'missing')
    try:
        # files AND a bucket named: the listed files are what is reported (the bucket is never consulted)
        extra = rng.choice([['-b', 'unused-bucket'], ['-b', 'unused-bucket', '-p', 'some/prefix/'],
                            ['--bucket-name', 'unused-bucket']]) if rng.random() < 0.12 else []
        cwd = os.getcwd()
        if rng.random() < 0.15 and not any(k in ('pipe', 'dir') for _, k in files):
            # relative names given from inside the directory, some of them starting with characters that mean
            # something to a shell or an argument parser (@ + = ~ %): they are file names
            os.chdir(tmpdir)
            rel = []
            for j_, (f_, k_) in enumerate(files):
                nm = rng.choice(['@', '@', '+', '=', '~', '%']) + 'n%d-' % j_ + os.path.basename(f_).replace('*', 'x').replace('?', 'q')
                if os.path.isfile(f_):
                    os.rename(f_, os.path.join(tmpdir, nm))
                rel.append((nm, k_))
            files = rel
            s.hist['cli:relative-odd-first-character-names'] += 1
        try:
            judge_detect_inspect(s, 'inspect' if inspect else 'detect', files, extra)
        finally:
            os.chdir(cwd)
    finally:
        close_pipes(files)


def judge_detect_inspect(s, cmd, files, extra=()):
    inspect = cmd == 'inspect'
    argv = [cmd, '-f'] + [f for f, _ in files] + list(extra)
    if extra:
        s.hist['cli:%s:files-and-bucket' % cmd] += 1
    rc, out, err = run_cli(argv)
    lines = out.splitlines()
    pos = 0
    pattern = ''.join({'valid': 'v', 'completed': 'c', 'nonxml': 'x', 'unknown': 'u', 'missing': 'm', 'dir': 'd', 'pipe': 'v'}[k]
                      for _, k in files)
    wit = {'type': 'cli', 'judge': 'detect_inspect', 'cmd': cmd, 'argv': argv, 'extra': list(extra),
           'files': [(f, k, (PIPE_DOCS[f][0].encode('utf-8').decode('latin-1') if k == 'pipe' else
                             open(f, 'rb').read().decode('latin-1') if os.path.isfile(f) else None)) for f, k in files]}
    s.hist['cli:pipe-paths'] += sum(1 for _, k in files if k == 'pipe')
    problems = []
    exact = ''            # the report, character for character (None once the library's own inspect() raised)
    MosFile = s.mt.MosFile
    for f, kind in files:
        EV.STATE['quiet'] = EV.STATE.get('quiet', 0) + 1
        try:
            try:
                # (the pipe was emptied by the command: the library reads the same text from a string)
                mo = MosFile.from_string(PIPE_DOCS[f][0]) if kind == 'pipe' else MosFile.from_file(f)
            except Exception:
                mo = None
        finally:
            EV.STATE['quiet'] -= 1
        if mo is None:
            if f not in err or not f:
                if f or ': Invalid' not in err:
                    problems.append(('bad-file-not-marked-on-stderr', f, kind))
            continue
        want = '%s: %s%s' % (f, type(mo).__name__, ' (completed)' if mo.completed else '')
        if exact is not None:
            exact += want + '\n'
            if inspect:
                raw = io.StringIO()
                try:
                    with contextlib.redirect_stdout(raw):
                        mo.inspect()
                    exact += raw.getvalue() + '\n'
                except Exception:
                    exact = None
        try:
            p = lines.index(want, pos)
        except ValueError:
            problems.append(('detect-line-missing-or-out-of-order', want, kind))
            continue
        pos = p + 1
        if inspect:
            try:
                ilines = lib_inspect_lines(mo)
            except Exception as e:
                s.hist['lib_inspect_raised:' + type(e).__name__] += 1
                ilines = None
            if ilines is not None:
                for il in ilines:
                    try:
                        p = lines.index(il, pos)
                        pos = p + 1
                    except ValueError:
                        problems.append(('inspect-line-missing', il, type(mo).__name__))
                        break
    # blank separator lines are presentation, not part of the claim; '\n' is the only line boundary
    squeeze = lambda t: '\n'.join(ln for ln in t.split('\n') if ln != '')
    if exact is not None and not problems and squeeze(out) != squeeze(exact):
        k = next((i for i, (a, b) in enumerate(zip(out, exact)) if a != b), min(len(out), len(exact)))
        problems.append(('stdout-differs-from-library-report', {'at': k, 'got': out[max(0, k - 30):k + 30],
                                                                 'want': exact[max(0, k - 30):k + 30]}, 'exact'))
    s.evaluations += 1
    s.note_sig((cmd, pattern[:6], rc, bool(problems)))
    s.hist['cli:' + cmd] += 1
    s.hist['cli:%s:exact-compared' % cmd] += int(exact is not None)
    if 'vmv' in pattern.replace('c', 'v').replace('d', 'm').replace('x', 'm').replace('u', 'm'):
        s.hist['cli:%s:bad-between-good' % cmd] += 1
    for pkind, what, k in problems[:3]:
        s.custom_violation(cmd + '-' + pkind, {'what': what, 'file_kind': k, 'pattern': pattern, 'rc': rc,
                                               'stderr': err[:300]}, wit, msg_kind=cmd, status=pkind)
    if len(s.samples) < 2 and len(files) > 2:
        s.samples.append({'argv': [cmd, '-f'] + [os.path.basename(f) + ':' + k for f, k in files], 'rc': rc,
                          'stdout_lines': len(lines), 'stderr_lines': len(err.splitlines())})


def merge_files(s, rng, tmpdir):
    pool = gen.text_pool('cr' if rng.random() < 0.3 else 'hostile')
    ro_txt = gen.rand_ro(rng, n_stories=rng.randint(1, 4), pool=pool, message_id=1, pretty=rng.random() < 0.5)
    state = Abs(ro_txt)
    ids = gen.Ids('m')
    docs = [ro_txt]
    for k in range(rng.randint(0, 6)):
        kind = K.weighted_kinds(rng, K.kind_weights(1, 1, 0.4, 0.0))
        docs.append(gen.rand_message(rng, state, kind, 10 + k, ids, pool=pool,
                                     shape_weights=(0.75, 0.15, 0.1, 0.0)))
    if rng.random() < 0.35 and len(state.story_ids) >= 2:
        # two messages that do not commute and share one messageID: the library
        # applies them in the order the files were listed
        a, b = state.story_ids[0], state.story_ids[-1]
        tie = 300 + rng.randint(0, 9)
        docs.append(B.msg_doc('roStoryMove', tie, ids=[a], target=b))
        docs.append(B.msg_doc('roStoryMove', tie, ids=[b], target=a))
        docs.append(B.msg_doc('roStorySend', tie, story_ref=a, body=[B.E('p', 'tie')], fields=['BODY']))
    if rng.random() < 0.2 and len(docs) > 1:
        # message IDs are signed integers: negative ones, zero, and ones beyond 32 / 64 bits sort where their value says
        import re as _re
        for j_ in rng.sample(range(1, len(docs)), min(len(docs) - 1, rng.randint(1, 2))):
            docs[j_] = _re.sub(r'<messageID>[^<]*</messageID>',
                               '<messageID>%s</messageID>' % rng.choice(['-7', '-12', '0', '-1', str(2 ** 31 + 5), str(2 ** 64 + 9)]), docs[j_], 1)
        s.hist['cli:merge:signed-or-huge-message-ids'] += 1
    r = rng.random()
    if r < 0.6:
        docs.append(B.msg_doc('roDelete', 500 if rng.random() < 0.8 else 2 ** 65))
    flavour = 'plain'
    r = rng.random()
    if r < 0.1:
        docs.append(gen.rand_ro(rng, n_stories=1, pool=pool, message_id=700))
        flavour = 'two-creates'
    elif r < 0.18:
        docs = docs[1:]
        flavour = 'no-create'
    paths = []
    order = list(range(len(docs)))
    rng.shuffle(order)
    for j in order:
        p = os.path.join(tmpdir, rng.choice(['m%02d.mos.xml', 'm %02d.mos.xml', FS_NAME('mö%02d.mos.xml'), 'm[%02d].mos.xml', 'm%02d*.mos.xml']) % j)
        write_doc(rng, p, docs[j])
        paths.append(p)
    if rng.random() < 0.06 and len(paths) > 1:
        # a classifiable message whose envelope lacks a usable messageID: the library cannot order it
        import re as _re
        victim = rng.choice(paths)
        txt = open(victim, 'rb').read().decode('utf-8', 'ignore')
        if '<roCreate' not in txt and txt.lstrip().startswith('<mos'):
            open(victim, 'w', encoding='utf-8').write(
                _re.sub(r'<messageID>[^<]*</messageID>', rng.choice(['', '<messageID/>', '<messageID>x1</messageID>']), txt, 1))
            flavour = 'no-messageid'
    r = rng.random()
    if r < 0.08:
        p = os.path.join(tmpdir, 'broken.mos.xml')
        open(p, 'w').write('<mos><nope')
        paths.insert(rng.randint(0, len(paths)), p)
        flavour = 'invalid-xml'
    elif r < 0.14:
        paths.insert(rng.randint(0, len(paths)), os.path.join(tmpdir, 'gone.mos.xml'))
        flavour = 'missing-file'
    elif r < 0.17:
        d_ = os.path.join(tmpdir, 'a-directory.mos.xml')
        os.makedirs(d_, exist_ok=True)
        paths.insert(rng.randint(0, len(paths)), d_)
        flavour = 'directory-among-inputs'
    elif r < 0.19 and paths:
        # a path that runs THROUGH a regular file
        paths.insert(rng.randint(0, len(paths)), os.path.join(paths[0], 'below-a-file.mos.xml'))
        flavour = 'path-through-a-file'
    elif r < 0.22:
        paths = []
        flavour = 'no-input'
    return paths, flavour


_OTHER_FS = []


def other_filesystem_dir():
    """A writable directory on a file system other than the temp directory's (None when there is none)."""
    if not _OTHER_FS:
        found = None
        try:
            here = os.stat(tempfile.gettempdir()).st_dev
            for d in ('/dev/shm', '/run/user/%d' % os.getuid(), '/var/tmp'):
                if os.path.isdir(d) and os.access(d, os.W_OK) and os.stat(d).st_dev != here:
                    found = tempfile.mkdtemp(prefix='verif-c19-', dir=d)
                    break
        except OSError:
            found = None
        _OTHER_FS.append(found)
    return _OTHER_FS[0]


def check_merge(s, rng, tmpdir, idx):
    paths, flavour = merge_files(s, rng, tmpdir)
    inc, non_strict, outfile = rng.random() < 0.5, rng.random() < 0.5, rng.random() < 0.5
    argv = ['merge']
    if paths:
        argv += ['-f'] + paths
        if rng.random() < 0.12:
            # files AND a bucket named: the files are merged (the bucket is never consulted)
            argv += rng.choice([['-b', 'unused-bucket'], ['-b', 'unused-bucket', '-p', 'some/prefix/']])
            flavour += '+files-and-bucket'
            s.hist['cli:merge:files-and-bucket'] += 1
    if inc:
        argv.append(rng.choice(['-i', '--incomplete']))
    if non_strict:
        argv.append(rng.choice(['-n', '--non-strict']))
    outpath = os.path.join(tmpdir, 'out-%d%s' % (idx, rng.choice(['.xml', '.xml', '', '.mos.xml', '.merged', '.2021-01-01'])))
    other = other_filesystem_dir()
    if other and rng.random() < 0.2:
        # the output goes to a directory on another file system than the inputs and the temp directory
        outpath = os.path.join(other, 'c19-%d-%d-%s' % (os.getpid(), idx, os.path.basename(outpath)))
        flavour += '+output-on-another-file-system'
        s.hist['cli:merge:output-on-another-file-system'] += 1
    preexisting = None
    if outfile:
        r = rng.random()
        if r < 0.08 and len(paths) > 1:
            # the output path is also one of the inputs (the library reads its inputs before anything is written)
            cand = [p for p in paths if os.path.isfile(p) and b'<roCreate' not in open(p, 'rb').read()]
            if cand:
                outpath = rng.choice(cand)
                flavour += '+out-is-input'
                preexisting = open(outpath, 'rb').read()
        elif r < 0.14:
            os.makedirs(outpath, exist_ok=True)        # the -o target is a directory
            flavour += '+outfile-is-a-directory'
        elif r < 0.55:
            # an older, longer result is already there
            preexisting = ('<mos>' + '<old>previous result</old>' * rng.randint(50, 400) + '</mos>\n').encode()
            with open(outpath, 'wb') as f:
                f.write(preexisting)
        argv += ['-o', outpath]
    # sometimes -o names a bare file in the working directory (no directory part at all)
    bare = outfile and preexisting is None and '+out-is-input' not in flavour and 'directory' not in flavour and rng.random() < 0.25
    cwd = os.getcwd()
    try:
        if bare:
            os.chdir(tmpdir)
            outpath = 'out-%d%s' % (idx, rng.choice(['.xml', '', '.merged']))
            argv[argv.index('-o') + 1] = outpath
            flavour += '+bare-outfile'
            s.hist['cli:merge:bare-outfile'] += 1
        judge_merge(s, argv, paths, flavour, inc, non_strict, outfile, outpath, preexisting)
        if os.path.isdir(outpath):
            shutil.rmtree(outpath, ignore_errors=True)
        elif os.path.exists(outpath):
            os.unlink(outpath)
    finally:
        os.chdir(cwd)


def judge_merge(s, argv, paths, flavour, inc, non_strict, outfile, outpath, preexisting):
    snapshot = [(p, 'dir' if os.path.isdir(p) else 'merge', open(p, 'rb').read().decode('latin-1') if os.path.isfile(p) else None)
                for p in paths]
    # what the library computes
    import mosromgr.moscollection as mcmod
    want_text, want_err = None, None
    EV.STATE['quiet'] = EV.STATE.get('quiet', 0) + 1
    try:
        with W.catch_warnings():
            W.simplefilter('ignore')
            try:
                if not paths:
                    raise ValueError('no input')
                mc = mcmod.MosCollection.from_files(paths, allow_incomplete=inc)
                mc.merge(strict=not non_strict)
                want_text = str(mc)
            except Exception as e:
                want_err = e
    finally:
        EV.STATE['quiet'] -= 1
    EV.drain()
    rc, out, err = run_cli(argv)
    EV.drain()
    s.evaluations += 1
    s.note_sig(('merge', flavour, inc, non_strict, outfile, type(want_err).__name__ if want_err else 'ok', rc))
    s.hist['cli:merge'] += 1
    s.hist['cli:merge:%s' % ('error' if want_err else 'ok')] += 1
    wit = {'type': 'cli', 'judge': 'merge', 'argv': argv,
           'files': snapshot,
           'params': {'flavour': flavour, 'inc': inc, 'non_strict': non_strict, 'outfile': outfile, 'outpath': outpath,
                      'preexisting': None if preexisting is None else preexisting.decode('latin-1')}}
    det = {'flavour': flavour, 'options': {'incomplete': inc, 'non_strict': non_strict, 'outfile': outfile},
           'library': type(want_err).__name__ if want_err else 'ok', 'rc': rc, 'stderr': err[:200]}
    if want_err is None and outfile and os.path.isdir(outpath):
        # the merge itself is fine, but the result cannot be written: an error like any other
        if rc != 2:
            s.custom_violation('merge-error-status-not-2', det, wit, msg_kind='merge', status='outfile-is-a-directory')
        if not err.strip():
            s.custom_violation('merge-error-without-stderr-message', det, wit, msg_kind='merge', status='outfile-is-a-directory')
    elif want_err is None:
        if rc not in (None, 0):
            s.custom_violation('merge-nonzero-status-on-success', det, wit, msg_kind='merge', status='ok')
        if outfile:
            got = read_text_exact(outpath) if os.path.exists(outpath) else None
            if got != want_text:
                s.custom_violation('merge-outfile-differs-from-library-result', det, wit, msg_kind='merge', status='-o')
        else:
            if out != want_text + '\n' and out != want_text:
                s.custom_violation('merge-stdout-differs-from-library-result', det, wit, msg_kind='merge', status='stdout')
    else:
        if rc != 2:
            s.custom_violation('merge-error-status-not-2', det, wit, msg_kind='merge', status=flavour)
        if not err.strip():
            s.custom_violation('merge-error-without-stderr-message', det, wit, msg_kind='merge', status=flavour)
        if outfile:
            # nothing was merged, so nothing may have been written: the path is as it was
            now = open(outpath, 'rb').read() if os.path.isfile(outpath) else None
            if now != preexisting:
                s.custom_violation('merge-error-but-output-file-written', dict(det, existed_before=preexisting is not None),
                                   wit, msg_kind='merge', status='-o')
    s.hist['cli:merge:preexisting-outfile'] += int(preexisting is not None)


def check_s3(s, rng, tmpdir, idx):
    """detect / inspect / merge against the fake bucket: -k, -p, -s (default and
    non-default suffix), decoys outside the prefix and with the other suffix;
    the output must be exactly what the library computes from the same keys."""
    f3 = K.ensure_fake_s3()
    pool = gen.text_pool('plain')
    bucket = 'clib'
    sfx = rng.choice(['.mos.xml', '.mos.xml', '.other', '.xml'])       # suffix of the real documents
    decoy_sfx = '.other' if sfx != '.other' else '.mos.xml'
    complete = rng.random() < 0.6
    ro_txt = gen.rand_ro(rng, n_stories=2, pool=pool, message_id=1)
    docs = [ro_txt, B.msg_doc('roStoryAppend', 5, carried=[gen.simple_story('Z', 1)])]
    if rng.random() < 0.3:
        docs.append(B.msg_doc('roStoryDelete', 7, ids=['NOPE']))      # fails in strict mode
    if complete:
        docs.append(B.msg_doc('roDelete', 9))
    f3.BUCKETS[bucket] = []
    entries = []
    for k, d in enumerate(docs):
        entries.append(('p/x/k%d%s' % (k, sfx), d))
    keys = [k for k, _ in entries]
    # decoys: same prefix with the other suffix (a second roCreate: listing it would change
    # every command's outcome), and keys outside the prefix with the right suffix
    entries.append(('p/x/decoy%s' % decoy_sfx, gen.rand_ro(rng, n_stories=1, pool=pool, message_id=3)))
    entries.append(('q/p/x/outside%s' % sfx, gen.rand_ro(rng, n_stories=1, pool=pool, message_id=4)))
    entries.append(('p/y/outside%s' % sfx, B.msg_doc('roDelete', 11)))
    cmd = rng.choice(['detect', 'inspect', 'merge', 'merge'])
    junk = cmd != 'merge' and rng.random() < 0.7
    if junk:
        entries.append(('p/x/junk%s' % sfx, 'not xml'))
    rng.shuffle(entries)
    for key, d in entries:
        f3.put(bucket, key, d)
    f3.CONFIG['page_size'] = rng.randint(1, 4)
    use_key = cmd != 'merge' and rng.random() < 0.3
    pass_suffix = sfx != '.mos.xml' or rng.random() < 0.5
    if sfx == '.xml':
        pass_suffix = True                  # '.mos.xml' keys would not be there, '.xml' must be asked for
    argv = [cmd, '-b', bucket] + (['-k', keys[0]] if use_key else ['-p', 'p/x/'])
    if not use_key and pass_suffix:
        argv += [rng.choice(['-s', '--suffix']), sfx]
    inc = non_strict = False
    if cmd == 'merge':
        inc, non_strict = rng.random() < 0.5, rng.random() < 0.5
        argv += (['-i'] if inc else []) + (['-n'] if non_strict else [])
    listed = [k for k, _ in f3.BUCKETS[bucket] if k.startswith('p/x/') and k.endswith(sfx)]
    want_keys = [keys[0]] if use_key else listed
    judge_s3(s, argv, cmd, bucket, want_keys, inc, non_strict,
             ('s3', cmd, use_key, sfx, pass_suffix, inc, non_strict, complete), sfx if pass_suffix else 'default')


def judge_s3(s, argv, cmd, bucket, want_keys, inc, non_strict, sig, suffix_label):
    f3 = K.ensure_fake_s3()
    content = dict(f3.BUCKETS[bucket])
    bad = []
    if cmd == 'merge':
        import mosromgr.moscollection as mcmod
        want_text, want_err = None, None
        EV.STATE['quiet'] = EV.STATE.get('quiet', 0) + 1
        try:
            with W.catch_warnings():
                W.simplefilter('ignore')
                try:
                    mc = mcmod.MosCollection.from_strings([content[k] for k in want_keys], allow_incomplete=inc)
                    mc.merge(strict=not non_strict)
                    want_text = str(mc)
                except Exception as e:
                    want_err = e
        finally:
            EV.STATE['quiet'] -= 1
        EV.drain()
        rc, out, err = run_cli(argv)
        EV.drain()
        if want_err is None:
            if rc not in (None, 0):
                bad.append(('merge-nonzero-status-on-success', rc))
            if out != want_text + '\n' and out != want_text:
                bad.append(('merge-stdout-differs-from-library-result', out[:200]))
        else:
            if rc != 2:
                bad.append(('merge-error-status-not-2', rc))
            if not err.strip():
                bad.append(('merge-error-without-stderr-message', type(want_err).__name__))
        s.hist['cli:s3:merge:%s' % ('error' if want_err else 'ok')] += 1
    else:
        rc, out, err = run_cli(argv)
        EV.drain()
        want_lines = []
        for key in want_keys:
            try:
                mo = s.load(content[key])
            except Exception:
                if key not in err:
                    bad.append(('bad-key-not-marked-on-stderr', key))
                continue
            want_lines.append('%s: %s' % (key, type(mo).__name__) + (' (completed)' if mo.completed else ''))
            if cmd == 'inspect':
                want_lines += lib_inspect_lines(mo) + ['']
        if out.splitlines() != want_lines:
            bad.append(('%s-output-differs-from-library' % cmd, {'got': out.splitlines()[:12], 'want': want_lines[:12]}))
        if rc not in (None, 0):
            bad.append(('nonzero-status', rc))
        for key, _ in f3.BUCKETS[bucket]:
            if key not in want_keys and key in (out + err):
                bad.append(('key-outside-the-selection-processed', key))
    EV.drain()
    s.evaluations += 1
    s.note_sig(tuple(sig) + (rc, bool(bad)))
    s.hist['cli:s3'] += 1
    s.hist['cli:s3:%s' % cmd] += 1
    s.hist['cli:s3:suffix:%s' % suffix_label] += 1
    for pk, what in bad[:2]:
        s.custom_violation('s3-' + pk, {'what': what, 'argv': argv, 'rc': rc, 'stderr': err[:200]},
                           {'type': 'cli-s3', 'argv': argv, 'cmd': cmd, 'bucket_name': bucket, 'want_keys': want_keys,
                            'inc': inc, 'non_strict': non_strict, 'page_size': f3.CONFIG['page_size'],
                            'bucket': [(k, b.decode('latin-1')) for k, b in f3.BUCKETS[bucket]]},
                           msg_kind=cmd, status='s3')


def subprocess_samples(s, tmpdir, n):
    """Fresh interpreters running the console-script entry point: true exit statuses."""
    for i in range(n):
        if not s.mine(i):
            continue
        rng = s.rng('sub', i)
        paths, flavour = merge_files(s, rng, tmpdir)
        inc, ns = rng.random() < 0.5, rng.random() < 0.5
        argv = ['merge'] + (['-f'] + paths if paths else []) + (['-i'] if inc else []) + (['-n'] if ns else [])
        judge_subprocess(s, argv, paths, flavour, inc, ns, tmpdir)


def fixed_subprocess_samples(s, tmpdir):
    """Two console-script runs that never depend on the draw: a non-strict merge with one failing message and
    one that reports a missing story, each under the default filters and under -W error - same output, status 0."""
    docs = [gen.grid_ro(['A', 'B', 'C'], 'none', pretty=False),
            B.msg_doc('roStoryReplace', 3, target='gone', carried=[gen.simple_story('N1', 1)]),
            B.msg_doc('roStoryDelete', 4, ids=['B', 'also-gone']),
            B.msg_doc('roStoryAppend', 5, carried=[gen.simple_story('N2', 1)]),
            B.msg_doc('roDelete', 9)]
    paths = []
    for k, d in enumerate(docs):
        p_ = os.path.join(tmpdir, 'fixed-%d.mos.xml' % k)
        with open(p_, 'w', encoding='utf-8') as f:
            f.write(d)
        paths.append(p_)
    for flags in ((), ('-W', 'error'), ('-W', 'error::UserWarning'), ('-W', 'always')):
        judge_subprocess(s, ['merge', '-f'] + paths + ['-n'], paths, 'fixed-non-strict', False, True, tmpdir, pyflags=list(flags))
        s.hist['cli:subprocess:fixed'] += 1


def judge_subprocess(s, argv, paths, flavour, inc, ns, cwd, pyflags=None):
    from ..run import worker_env
    env = worker_env()
    env.pop('BBC_MOSROMGR_VERIF', None)
    code = 'import sys; from mosromgr.cli import main; sys.exit(main())'
    import mosromgr.moscollection as mcmod
    want_text, want_err = None, None
    EV.STATE['quiet'] = EV.STATE.get('quiet', 0) + 1
    try:
        with W.catch_warnings():
            W.simplefilter('ignore')
            try:
                if not paths:
                    raise ValueError('no input')
                mc = mcmod.MosCollection.from_files(paths, allow_incomplete=inc)
                mc.merge(strict=not ns)
                want_text = str(mc)
            except Exception as e:
                want_err = e
    finally:
        EV.STATE['quiet'] -= 1
    EV.drain()
    try:
        # every other sample runs the interpreter with warnings as errors (-W error): the command line decides
        # for itself what it does with the library's warnings, the outcome is the same
        if pyflags is None:
            pyflags = ['-W', 'error'] if (len(argv) + len(paths)) % 2 else []
        s.hist['cli:subprocess:%s' % ('W-error' if pyflags else 'default-filters')] += 1
        p = subprocess.run([sys.executable, '-B'] + pyflags + ['-c', code] + argv, env=env, capture_output=True,
                           timeout=60, cwd=cwd)
        p.stdout = p.stdout.decode('utf-8', 'replace')
        p.stderr = p.stderr.decode('utf-8', 'replace')
    except subprocess.TimeoutExpired:
        s.inconclusive.append('console-script subprocess timed out')
        return
    s.evaluations += 1
    s.note_sig(('subprocess', flavour, inc, ns, p.returncode))
    s.hist['cli:subprocess'] += 1
    wit = {'type': 'cli', 'judge': 'subprocess', 'argv': argv,
           'params': {'flavour': flavour, 'inc': inc, 'non_strict': ns},
           'files': [(q, 'dir' if os.path.isdir(q) else 'merge', open(q, 'rb').read().decode('latin-1') if os.path.isfile(q) else None)
                     for q in paths]}
    det = {'flavour': flavour, 'library': type(want_err).__name__ if want_err else 'ok', 'rc': p.returncode,
           'stderr': p.stderr[-200:]}
    if want_err is None:
        if p.returncode != 0:
            s.custom_violation('process-exit-status-nonzero-on-success', det, wit, msg_kind='merge', status='subprocess')
        elif p.stdout != want_text + '\n':
            s.custom_violation('process-stdout-differs-from-library-result', det, wit, msg_kind='merge', status='subprocess')
    else:
        if p.returncode != 2:
            s.custom_violation('process-exit-status-not-2-on-error', det, wit, msg_kind='merge', status=flavour)
        if not p.stderr.strip():
            s.custom_violation('process-error-without-stderr-message', det, wit, msg_kind='merge', status=flavour)


def run(s):
    q = s.tier == 'quick'
    base = tempfile.mkdtemp(prefix='verif-c19-')
    try:
        _run(s, q, base)
    finally:
        if _OTHER_FS and _OTHER_FS[0]:
            shutil.rmtree(_OTHER_FS[0], ignore_errors=True)
            _OTHER_FS[:] = []


def _run(s, q, base):
    try:
        n = 800 if q else 30000
        for i in range(n):
            if not s.mine(i):
                continue
            rng = s.rng('cli', i)
            tmpdir = os.path.join(base, 'c%d' % i)
            os.makedirs(tmpdir)
            c = i % 4
            if c == 0:
                check_detect_inspect(s, rng, tmpdir, i, inspect=False)
            elif c == 1:
                check_detect_inspect(s, rng, tmpdir, i, inspect=True)
            elif c == 2:
                check_merge(s, rng, tmpdir, i)
            else:
                if i % 8 == 3:
                    check_s3(s, rng, tmpdir, i)
                else:
                    check_merge(s, rng, tmpdir, i)
            shutil.rmtree(tmpdir, ignore_errors=True)
        sub = os.path.join(base, 'sub')
        os.makedirs(sub)
        subprocess_samples(s, sub, 16 if q else 400)
        if s.mine(1):
            fixed_subprocess_samples(s, sub)
    finally:
        shutil.rmtree(base, ignore_errors=True)


def replay(s, data):
    w = data['witness']
    if w.get('type') == 'cli-s3':
        f3 = K.ensure_fake_s3()
        f3.BUCKETS[w['bucket_name']] = [(k, b.encode('latin-1')) for k, b in w['bucket']]
        f3.CONFIG['page_size'] = w.get('page_size', 3)
        judge_s3(s, w['argv'], w['cmd'], w['bucket_name'], w['want_keys'], w['inc'], w['non_strict'], ('s3', 'replay'), 'replay')
        return
    if w.get('type') != 'cli':
        s.notes.append('witness type not replayable')
        return
    for p, k, content in w['files']:
        if k == 'pipe':
            continue
        if content is not None:
            os.makedirs(os.path.dirname(p), exist_ok=True)
            open(p, 'wb').write(content.encode('latin-1'))
        elif k == 'dir':
            os.makedirs(p, exist_ok=True)
    try:
        if w.get('judge') == 'detect_inspect':
            files = []
            for p, k, content in w['files']:
                if k == 'pipe':
                    p = make_pipe(content.encode('latin-1').decode('utf-8'))     # a fresh pipe: the number may differ
                files.append((p, k))
            try:
                judge_detect_inspect(s, w['cmd'], files, w.get('extra', ()))
            finally:
                close_pipes(files)
        elif w.get('judge') == 'merge':
            q = w['params']
            pre = None if q['preexisting'] is None else q['preexisting'].encode('latin-1')
            cwd = os.getcwd()
            if q['outfile'] and not os.path.dirname(q['outpath']):
                os.chdir(tempfile.gettempdir())         # a bare file name: relative to a scratch working directory
            if q['outfile']:
                if os.path.dirname(q['outpath']):
                    os.makedirs(os.path.dirname(q['outpath']), exist_ok=True)
                if 'outfile-is-a-directory' in q['flavour']:
                    os.makedirs(q['outpath'], exist_ok=True)
                elif pre is not None:
                    open(q['outpath'], 'wb').write(pre)
                elif os.path.exists(q['outpath']):
                    os.unlink(q['outpath'])
            judge_merge(s, w['argv'], [p for p, _, _ in w['files']], q['flavour'], q['inc'], q['non_strict'],
                        q['outfile'], q['outpath'], pre)
            if os.path.isdir(q['outpath']):
                shutil.rmtree(q['outpath'], ignore_errors=True)
            elif os.path.exists(q['outpath']):
                os.unlink(q['outpath'])
            os.chdir(cwd)
        elif w.get('judge') == 'subprocess':
            q = w['params']
            judge_subprocess(s, w['argv'], [p for p, _, _ in w['files']], q['flavour'], q['inc'], q['non_strict'],
                             tempfile.gettempdir())
        else:
            rc, out, err = run_cli(w['argv'])
            s.notes.append({'rc': rc, 'stdout': out[:2000], 'stderr': err[:2000]})
            s.evaluations += 1
    finally:
        for p, k, content in w['files']:
            try:
                if os.path.isfile(p):
                    os.unlink(p)
                elif k == 'dir' and os.path.isdir(p):
                    os.rmdir(p)
            except OSError:
                pass


def gates(agg, tier):
    r = []
    for c in ('detect', 'inspect', 'merge', 's3', 'subprocess'):
        K.need(agg, r, agg['hist'].get('cli:' + c, 0) > 0, 'command path %s never executed' % c)
    for c in ('detect', 'inspect'):
        K.need(agg, r, agg['hist'].get('cli:%s:bad-between-good' % c, 0) > 0,
               '%s never ran with a bad file between two good ones' % c)
    K.need(agg, r, agg['hist'].get('cli:merge:ok', 0) > 0, 'no successful merge observed')
    K.need(agg, r, agg['hist'].get('cli:merge:error', 0) > 0, 'no failing merge observed')
    return r
