"""C10 - merge result is independent of the order in which inputs are supplied."""
import itertools
import shutil
import tempfile

from .. import build as B
from .. import events as EV
from .. import gen
from ..canon import Abs
from . import common as K

ID_POOL = [-12, -7, 2, 7, 9, 10, 11, 12, 99, 100, 101, 999, 1000, 1001, 10000, 123456,
           2 ** 53, 2 ** 53 + 1, 2 ** 53 + 2, 2 ** 53 + 3, 10 ** 20, 10 ** 20 + 1]
PADDED = {7: '007', 10: '0010', 99: '099', 9: '+9', 11: ' 11 ', -7: '-07', 12: '+012'}      # lexical forms of xs:integer

META = {
    'rule': ('Message lists with distinct message IDs of mixed digit counts (2, 7, 9, 10, 99, 100, 1000, ..., some '
             'written with leading zeros) whose effects are order-sensitive (append / insert / delete / move / re-send '
             'of the same stories). For every permutation of the inputs (all n! for n<=5, 60-200 random ones for '
             'n<=12) and each of the three constructors: [mr.message_id for mr in mc.mos_readers] must be ascending '
             'numerically, str(mc) after merge must be identical across permutations and equal to the hand fold in '
             'numeric order; sorted(MosFile objects) must give the same order. The fake S3 bucket lists keys in the '
             'supplied (arbitrary) order; file names carry no order information. Signature = (constructor, n, whether '
             'string order differs from numeric order, permutation class, outcome).'),
    'exhaustive_part': 'all n! permutations for n<=5 of each sampled list',
    'workers': {'quick': 12, 'thorough': 16},
    'watchdog': {'quick': 600, 'thorough': 3600},
}


def order_sensitive_docs(rng, n, idx):
    """roCreate + n-1 messages whose result depends on application order."""
    ids_numeric = sorted(rng.sample(ID_POOL, n))
    pool = gen.text_pool('plain')
    names = ['A', 'B', 'C']
    ro_txt = gen.grid_ro(names, rng.choice(['none', 'between']), pretty=False)
    def mid(v):
        return PADDED.get(v, str(v)) if rng.random() < 0.5 else str(v)
    # the roCreate is usually, but not always, the message with the lowest ID
    create_id = ids_numeric[0] if rng.random() < 0.7 else rng.choice(ids_numeric)
    ro_txt = ro_txt.replace('<messageID>1</messageID>', '<messageID>%s</messageID>' % mid(create_id))
    docs = [ro_txt]
    live = list(names)
    fresh = gen.Ids('O%d.' % idx)
    # in 40% of the lists a roDelete sits somewhere in the middle: what follows it is refused
    end_at = rng.randrange(1, n) if (n > 2 and rng.random() < 0.4) else None
    owed = None          # a story named by an earlier message that only this message creates
    rest = [x for x in ids_numeric if x != create_id]
    for k, v in enumerate(rest):
        c = rng.random()
        if owed is not None:
            # the story the previous message was waiting for arrives now: in ascending order that message has
            # already failed (non-strict: skipped for good), and it is not to be applied late
            d = B.msg_doc('roStoryAppend', 5, carried=[gen.simple_story(owed, 1)])
            live.append(owed)
            owed = None
            docs.append(d.replace('<messageID>5</messageID>', '<messageID>%s</messageID>' % mid(v)))
            continue
        if end_at is None and k + 1 < len(rest) and c < 0.12:
            owed = fresh.new()
            new = fresh.new()
            d = rng.choice([B.msg_doc('roStoryInsert', 5, target=owed, carried=[gen.simple_story(new, 1)]),
                            B.msg_doc('roStoryMove', 5, ids=[owed], target=rng.choice(live) if live else B.BLANK),
                            B.msg_doc('roStorySend', 5, story_ref=owed, body=[B.E('p', 'early')], fields=['BODY'])])
            docs.append(d.replace('<messageID>5</messageID>', '<messageID>%s</messageID>' % mid(v)))
            continue
        if end_at == k + 1:
            docs.append(B.msg_doc('roDelete', 5).replace('<messageID>5</messageID>',
                                                          '<messageID>%s</messageID>' % mid(v)))
            continue
        if c < 0.3:
            new = fresh.new()
            d = B.msg_doc('roStoryAppend', 5, carried=[gen.simple_story(new, 1)])
            live.append(new)
        elif c < 0.5 and live:
            new = fresh.new()
            d = B.msg_doc('roStoryInsert', 5, target=rng.choice(live), carried=[gen.simple_story(new, 1)])
            live.append(new)
        elif c < 0.65 and len(live) > 1:
            x = rng.choice(live)
            live.remove(x)
            d = B.msg_doc('roStoryDelete', 5, ids=[x])
        elif c < 0.85 and len(live) > 1:
            a, b = rng.sample(live, 2)
            d = B.msg_doc('roStoryMove', 5, ids=[a], target=b)
        elif c < 0.92 and k > 0:
            # roReplace: wipes what earlier messages built, so its place in the order matters
            live = ['X%d' % v, 'Y%d' % v]
            d = gen.grid_ro(live, 'none').replace('roCreate', 'roReplace').replace(
                '<messageID>1</messageID>', '<messageID>5</messageID>')
            # the replacement may be scheduled earlier or later than the running order it replaces: irrelevant to its place
            d = d.replace('2020-01-01T12:30:00', rng.choice(['2019-12-31T08:00:00', '2020-06-01T09:00:00', '2020-01-01T12:30:00']))
        elif live:
            d = B.msg_doc('roStorySend', 5, story_ref=rng.choice(live), body=[B.E('p', 'v%d' % v)],
                          fields=[B.E('storySlug', 'sent at %d' % v), 'BODY'])
        else:
            d = B.msg_doc('roMetadataReplace', 5, carried=[B.E('roSlug', 'at %d' % v)])
        d = d.replace('<messageID>5</messageID>', '<messageID>%s</messageID>' % mid(v))
        if rng.random() < 0.4:
            # messages of one running order may come from different senders
            d = d.replace('<mosID>MOS ID</mosID>', '<mosID>%s</mosID><ncsID>%s</ncsID>' % (
                rng.choice(['MOS ID', 'MOS B']), rng.choice(['NCS1', 'NCS2', 'NCS3'])), 1)
        docs.append(d)
    return docs, ids_numeric, create_id


def long_list(s, how, n, tmpdir):
    """A collection of n messages (a long programme day): appends, deletes and moves whose result depends on
    the order of application; supplied reversed and shuffled."""
    rng = s.rng('long-list', how)
    docs = [gen.grid_ro(['A', 'B'], 'none', pretty=False)]
    live = ['A', 'B']
    for v in range(2, n + 1):
        c = rng.random()
        if len(live) < 4 or (c < 0.45 and len(live) < 25):
            new = 'L%d' % v
            d = B.msg_doc('roStoryAppend', v, carried=[gen.simple_story(new, 1)])
            live.append(new)
        elif c < 0.7:
            d = B.msg_doc('roStoryDelete', v, ids=[live.pop(rng.randrange(len(live)))])
        else:
            a, b = rng.sample(live, 2)
            d = B.msg_doc('roStoryMove', v, ids=[a], target=b)
        docs.append(d)
    fold_text, n_failed, ferr, applied = K.hand_fold(s, docs, False)
    EV.drain()
    def pivots_first(b):
        # blocks of b documents, each opening with a high-numbered message (ascending from block to block)
        # followed by low-numbered ones: a reader that sorts block by block and only glances at the first
        # document of a block gets this wrong
        rest = docs[1:]
        nb = -(-(len(rest) + 1) // b)                     # every block - the last, shorter one too - opens with a pivot
        hi, lo = rest[-nb:], rest[:-nb]
        out, used = [], 0
        for k in range(nb):
            take = b - 1 - (1 if k == 0 else 0)          # the roCreate shares the first block: blocks stay b long
            out.extend(([docs[0]] if k == 0 else []) + [hi[k]] + lo[used:used + take])
            used += take
        return out
    orders = [('reversed', docs[::-1]), ('shuffled', rng.sample(docs, len(docs)))]
    orders += [('pivots-first-%d' % b, pivots_first(b)) for b in ((100,) if n <= 1500 else (50, 100, 128, 250))]
    for label, pdocs in orders:
        mc, cerr = K.make_collection(s, pdocs, how, True, tmpdir)
        wit = {'type': 'perm', 'docs': pdocs, 'how': how}
        s.evaluations += 1
        if mc is None:
            s.custom_violation('collection-rejected-for-one-input-order', {'exc': type(cerr).__name__}, wit)
            continue
        got_ids = [mr.message_id for mr in mc.mos_readers]
        if got_ids != list(range(2, n + 1)):
            s.custom_violation('readers-not-in-ascending-numeric-message-id-order',
                               {'got': got_ids[:20], 'how': how, 'n': n}, wit, status=how)
        merr, wn = K.merge_collection(s, mc, False)
        EV.drain()
        s.note_sig((how, 'long-list', n, label, type(merr).__name__ if merr else 'ok'))
        if merr is not None or str(mc) != fold_text:
            s.custom_violation('result-depends-on-input-order',
                               {'how': how, 'n': n, 'order': label, 'merge_exc': type(merr).__name__ if merr else None,
                                'msg': str(merr)[:120] if merr else None}, wit, status=how)
        s.hist['long_lists:%d' % n] += 1


def run(s):
    K.hostile_callers(s)
    q = s.tier == 'quick'
    tmpdir = tempfile.mkdtemp(prefix='verif-c10-')
    hows = ('strings', 'files', 's3')
    try:
        for k, how in enumerate(hows):
            if s.mine(k):
                long_list(s, how, 1200 if q else 4000, tmpdir)
        n_lists = 90 if q else 3000
        for i in range(n_lists):
            if not s.mine(i):
                continue
            rng = s.rng('list', i)
            n = rng.choice([2, 3, 4, 5, 5, 6, 8, 12] if not q else [2, 3, 4, 4, 5, 7])
            docs, numeric, create_id = order_sensitive_docs(rng, n, i)
            others = [x for x in numeric if x != create_id]
            s.hist['lists_where_the_roCreate_is_not_first'] += int(create_id != numeric[0])
            lexical_differs = sorted(str(v) for v in numeric) != [str(v) for v in numeric]
            fold_text, n_failed, ferr, applied = K.hand_fold(s, docs, False)
            EV.drain()
            if n <= (4 if q else 5):
                perms = list(itertools.permutations(range(n)))
            else:
                perms = [tuple(rng.sample(range(n), n)) for _ in range(25 if q else 120)]
                perms += [tuple(range(n)), tuple(reversed(range(n)))]
            how = hows[i % 3]
            texts = set()
            name_rank = rng.sample(range(100, 999), n)     # names unrelated to message order
            for pi, perm in enumerate(perms):
                pdocs = [docs[j] for j in perm]
                # file / key names must not leak the order
                names = ['n%03d.mos.xml' % name_rank[j] for j in perm]
                if i % 4 == 1:
                    # one file name, one directory (or key prefix) per message
                    names = ['d%03d/message.mos.xml' % name_rank[j] for j in perm]
                mc, cerr = K.make_collection(s, pdocs, how, True, tmpdir, names=names)
                wit = {'type': 'perm', 'docs': pdocs, 'how': how}
                s.evaluations += 1
                if mc is None:
                    s.custom_violation('collection-rejected-for-one-input-order', {'exc': type(cerr).__name__}, wit)
                    continue
                got_ids = [mr.message_id for mr in mc.mos_readers]
                if got_ids != others:
                    s.custom_violation('readers-not-in-ascending-numeric-message-id-order',
                                       {'got': got_ids, 'want': others, 'how': how}, wit, status=how)
                merr, wn = K.merge_collection(s, mc, False)
                EV.drain()
                t = str(mc)
                texts.add(t)
                if t != fold_text:
                    s.custom_violation('result-depends-on-input-order', {'how': how, 'numeric_ids': numeric,
                                                                          'permutation': list(perm)}, wit, status=how)
                s.note_sig((how, n, lexical_differs, 'identity' if list(perm) == sorted(perm) else
                            'reversed' if list(perm) == sorted(perm, reverse=True) else 'other', len(texts)))
            # sorting MosFile objects
            # ... also when they belong to several running orders, or carry a blank running-order ID
            mixed = i % 2 == 1
            sdocs = [d.replace('<roID>RO</roID>', rng.choice(['<roID>RO</roID>', '<roID>AA</roID>', '<roID>ZZ</roID>',
                                                               '<roID/>']), 1) if mixed else d for d in docs]
            objs = [s.load(d) for d in sdocs]
            rng.shuffle(objs)
            try:
                got = [o.message_id for o in sorted(objs)]
            except Exception as e:
                got = type(e).__name__
            s.evaluations += 1
            s.note_sig(('sorted-mosfiles', n, lexical_differs, mixed, got == numeric))
            if got != numeric:
                s.custom_violation('sorted-MosFile-objects-not-numeric', {'got': got, 'want': numeric},
                                   {'type': 'perm', 'docs': sdocs, 'how': 'sorted'})
            if len(s.samples) < 3 and lexical_differs:
                s.samples.append({'constructor': how, 'numeric_message_ids': numeric,
                                  'message_id_texts': [K.message_id_of(d) for d in docs],
                                  'permutations_tried': len(perms), 'distinct_results': len(texts)})
            s.hist['lists'] += 1
            s.hist['lists_where_string_order_differs'] += int(lexical_differs)
            s.hist['permutations:' + how] += len(perms)
    finally:
        shutil.rmtree(tmpdir, ignore_errors=True)


def replay(s, data):
    w = data['witness']
    tmpdir = tempfile.mkdtemp(prefix='verif-c10-')
    try:
        docs = w['docs']
        if w.get('how') == 'sorted':
            objs = [s.load(d) for d in reversed(docs)]
            try:
                got = [o.message_id for o in sorted(objs)]
            except Exception as e:
                got = type(e).__name__
            want = sorted(K.message_id_of(d) for d in docs)
            if got != want:
                s.custom_violation('sorted-MosFile-objects-not-numeric', {'got': got, 'want': want}, w)
            s.evaluations += 1
            return
        fold_text, _, _, _ = K.hand_fold(s, docs, False)
        mc, cerr = K.make_collection(s, docs, w.get('how', 'strings'), True, tmpdir)
        s.evaluations += 1
        if mc is None:
            s.custom_violation('collection-rejected-for-one-input-order', {'exc': type(cerr).__name__}, w)
            return
        from xml.etree import ElementTree as ET
        from ..spec import classify_doc
        want = sorted(K.message_id_of(d) for d in docs if classify_doc(ET.fromstring(d)) != 'RunningOrder')
        got = [mr.message_id for mr in mc.mos_readers]
        if got != want:
            s.custom_violation('readers-not-in-ascending-numeric-message-id-order', {'got': got, 'want': want}, w)
        K.merge_collection(s, mc, False)
        if str(mc) != fold_text:
            s.custom_violation('result-depends-on-input-order', {}, w)
    finally:
        shutil.rmtree(tmpdir, ignore_errors=True)


def gates(agg, tier):
    r = []
    K.need(agg, r, agg['hist'].get('lists_where_string_order_differs', 0) > 0,
           'no list where string order differs from numeric order')
    for how in ('strings', 'files', 's3'):
        K.need(agg, r, agg['hist'].get('permutations:' + how, 0) > 0, 'constructor %s never used' % how)
    K.need(agg, r, any(k.startswith('long_lists:') and v > 0 for k, v in agg['hist'].items()),
           'no long message list was merged')
    return r
