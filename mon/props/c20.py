"""C20 - message objects expose exactly the targets and sources the message names."""
import contextlib
import io
from xml.etree import ElementTree as ET

from .. import build as B
from .. import events as EV
from .. import gen
from ..build import BLANK, ABSENT
from ..canon import Abs, canon, sid, iid
from ..spec import interpret, converted_story_canon
from . import common as K

META = {
    'rule': ('All 24 kinds x 1-4 sources x {present, blank, absent} targets x blank IDs inside source lists x {compact, '
             'pretty-printed}, aimed at random states (reference-shape product + random messages). For every message '
             'object the documented accessors (story, stories, item, items, source_story, target_story, '
             'source_stories, ro_slug) are read and compared with what an independent interpreter reads from the '
             'message TEXT: IDs of the returned objects in message order; a blank / absent target must be None or an '
             'object whose id is None - never another ID; carried stories / items must be exposed with the sent '
             'content (roStorySend: the converted story). inspect() is run with captured stdout: it must not raise and '
             'must mention every source ID it names. Signature = (kind, accessor, reference shapes, number of sources, '
             'pretty/compact, outcome).'),
    'workers': {'quick': 12, 'thorough': 16},
    'watchdog': {'quick': 600, 'thorough': 3600},
    'assumptions': ['swaps with other than two operands, roItemMoveMultiple without itemID and roStoryMove without '
                    'storyID are outside the claim'],
}

# accessor -> what it must expose, per kind
T, S, C, SR = 'target', 'sources', 'carried', 'story_ref'
ACCESSORS = {
    'roStorySend': {'story': 'sent'},
    'roStoryAppend': {'stories': C},
    'roStoryDelete': {'stories': S},
    'roItemDelete': {'story': SR, 'items': S},
    'roStoryInsert': {'target_story': T, 'source_stories': C},
    'roItemInsert': {'story': SR, 'item': T, 'items': C},
    'roStoryMove': {'source_story': 'source0', 'target_story': T},
    'roItemMoveMultiple': {'story': SR, 'item': T, 'items': S},
    'roStoryReplace': {'story': T, 'stories': C},
    'roItemReplace': {'story': SR, 'item': T, 'items': C},
    'roMetadataReplace': {'ro_slug': 'slug'},
    'roReplace': {'ro_slug': 'slug', 'stories': 'ro-stories'},
    'roCreate': {'ro_slug': 'slug', 'stories': 'ro-stories'},
    'roReadyToAir': {},
    'roDelete': {},
    'EAStoryReplace': {'story': T, 'stories': C},
    'EAItemReplace': {'story': SR, 'item': T, 'items': C},
    'EAStoryDelete': {'stories': S},
    'EAItemDelete': {'story': SR, 'items': S},
    'EAStoryInsert': {'story': T, 'stories': C},
    'EAItemInsert': {'story': SR, 'item': T, 'items': C},
    'EAStorySwap': {'stories': S},
    'EAItemSwap': {'story': SR, 'items': S},
    'EAStoryMove': {'story': T, 'stories': S},
    'EAItemMove': {'story': SR, 'item': T, 'items': S},
}


def id_of(obj):
    if obj is None:
        return None
    return obj.id


def ref_id(ref):
    return ref[1] if ref[0] == 'id' else None


def check_message(s, doc, pretty, mo=None, phase='fresh'):
    try:
        root = ET.fromstring(doc)
    except ET.ParseError:
        return
    m = interpret(root)
    if m.kind is None or getattr(m, 'el', None) is None:
        return
    if mo is None:
        try:
            mo = s.load(doc)
        except Exception as e:
            s.hist['unloadable:' + type(e).__name__] += 1
            return
    kind = m.kind
    table = ACCESSORS.get(kind)
    if table is None:
        return
    s.evaluations += 1
    wit = {'type': 'message', 'doc': doc, 'phase': phase}
    in_claim = m.shape_ok
    if kind == 'roStoryMove' and not m.sources:
        in_claim = False
    if not in_claim:
        s.ooc['unshaped:' + kind] += 1
    known = set()
    idget = sid if m.level == 'story' else iid
    for accname, what in table.items():
        try:
            val = getattr(mo, accname)
            exc = None
        except Exception as e:
            val, exc = None, e
        if exc is not None:
            s.note_sig((kind, accname, 'raised'))
            if in_claim:
                s.custom_violation('message-accessor-raised', {'kind': kind, 'accessor': accname,
                                                               'exc': type(exc).__name__, 'msg': str(exc)[:150]},
                                   wit, msg_kind=kind, status=accname)
            continue
        ok, want, got = True, None, None
        try:
            if what in (T, SR, 'source0'):
                ref = {T: m.target, SR: m.story_ref, 'source0': (m.sources[0] if m.sources else ABSENT)}[what]
                want = ref_id(ref)
                got = id_of(val)
                ok = got == want
                shape = ref[0]
            elif what == S:
                want = [ref_id(r) for r in m.sources]
                got = [id_of(v) for v in val]
                ok = got == want and isinstance(val, (list, tuple)) and [id_of(v) for v in val] == want
                shape = 'n=%d%s' % (min(len(want), 4), '+blank' if None in want else '')
            elif what == C:
                want = [idget(c) for c in m.carried]
                got = [id_of(v) for v in val]
                ok = got == want and isinstance(val, (list, tuple)) and \
                    all(canon(v.xml) == canon(c) for v, c in zip(val, m.carried))
                shape = 'n=%d' % min(len(want), 4)
            elif what == 'sent':
                want = ref_id(m.story_ref)
                got = id_of(val)
                ok = got == want and canon(val.xml) == converted_story_canon(m.el)
                shape = m.story_ref[0]
            elif what == 'ro-stories':
                carried = [c for c in m.el if c.tag == 'story']
                want = [sid(c) for c in carried]
                got = [id_of(v) for v in val]
                ok = got == want and isinstance(val, (list, tuple)) and \
                    all(canon(v.xml) == canon(c) for v, c in zip(val, carried))
                shape = 'n=%d' % min(len(want), 4)
            elif what == 'slug':
                el = m.el.find('roSlug')
                want = None if el is None else el.text
                got = val
                ok = got == want
                shape = 'slug'
        except Exception as e:
            ok, got, shape = False, 'EXC:%s' % type(e).__name__, 'exc'
        s.note_sig((kind, accname, shape, pretty, ok, phase))
        s.hist['message_accessor:%s.%s' % (kind, accname)] += 1
        if not ok and in_claim:
            s.custom_violation('message-accessor-disagrees-with-text',
                               {'kind': kind, 'accessor': accname, 'got': repr(got)[:200], 'want': repr(want)[:200]},
                               wit, msg_kind=kind, status=accname + ('' if phase == 'fresh' else '@' + phase))
    # inspect()
    out = io.StringIO()
    try:
        with contextlib.redirect_stdout(out):
            mo.inspect()
        iexc = None
    except Exception as e:
        iexc = e
    text = out.getvalue()
    s.hist['inspect_calls'] += 1
    if iexc is not None:
        s.note_sig((kind, 'inspect', 'raised', pretty))
        if in_claim:
            s.custom_violation('inspect-raised', {'kind': kind, 'exc': type(iexc).__name__, 'msg': str(iexc)[:150]},
                               wit, msg_kind=kind, status='inspect')
    else:
        named = [ref_id(r) for r in m.sources] + [idget(c) for c in m.carried if m.level in ('story', 'item')]
        if kind == 'roStorySend':
            named = [ref_id(m.story_ref)]
        missing = [x for x in named if x is not None and x not in text]
        s.note_sig((kind, 'inspect', 'ok' if not missing else 'missing-source', pretty, min(len(named), 4)))
        if missing and in_claim:
            s.custom_violation('inspect-omits-a-source', {'kind': kind, 'missing': missing[:3],
                                                          'printed': text[:300]}, wit, msg_kind=kind, status='inspect')
    if len(s.samples) < 3 and s.evaluations % 40 == 0:
        s.samples.append({'kind': kind, 'doc': doc[:400], 'inspect_output': text[:200]})


def after_merge(s, i):
    """The message object is merged, the running order is then edited by later
    messages aimed at what it carried, and the object's accessors are read
    again: they must still expose exactly what the message text names."""
    from . import c13
    rng = s.rng('after', i)
    pool = gen.text_pool('plain')
    ids = gen.Ids('A%d.' % i)
    kind = B.ALL_KINDS[i % len(B.ALL_KINDS)]
    if kind == 'roDelete':
        kind = 'roStorySend'
    ro_txt = gen.rand_ro(rng, n_stories=rng.randint(2, 4), pool=pool)
    msg_txt = gen.rand_message(rng, Abs(ro_txt), kind, 50, ids, pool=pool, shape_weights=(1.0, 0, 0, 0), selfref=0)
    ro = s.load(ro_txt)
    try:
        mo = s.load(msg_txt)
    except Exception:
        return
    ro, err, _ = s.add(ro, mo)
    j = [e for e in EV.drain() if e.get('ev') == 'ADD']
    if err is not None or not j:
        return
    cur = j[-1]['post_xml']
    edits = c13.followups(rng, cur, c13.carried_story_ids(msg_txt), ids, pool, rng.randint(1, 4))
    for k, (ek, kw) in enumerate(edits):
        try:
            ro, e2, _ = s.add(ro, s.load(B.msg_doc(ek, 300 + k, **kw)))
        except Exception:
            pass
    EV.drain()
    check_message(s, msg_txt, False, mo=mo, phase='after-merge-and-edits')
    s.hist['after_merge_cases'] += 1


def run(s):
    K.hostile_callers(s)
    q = s.tier == 'quick'
    for i in range(360 if q else 30000):
        if s.mine(i):
            after_merge(s, i)
    for i in range(24 if q else 2500):
        if not s.mine(i):
            continue
        rng = s.rng('state', i)
        pool = gen.text_pool('hostile')
        if i % 3 == 2:
            hs = rng.sample(gen.HOSTILE_IDS, rng.randint(2, 5))
            ro_txt = gen.rand_ro(rng, n_stories=len(hs), story_ids=hs, pool=pool)      # hostile IDs (quotes, braces, commas ...)
        else:
            ro_txt = gen.rand_ro(rng, n_stories=rng.randint(1, 5), pool=pool)
        state = Abs(ro_txt)
        ids = gen.Ids('M%d.' % i)
        for kind, shapes, kw in gen.shape_product(rng, state, ids, pool):
            pretty = rng.random() < 0.5
            check_message(s, B.msg_doc(kind, 7, pretty=pretty, **kw), pretty)
        # the roCreate itself (it is a message too), under several timing mixes
        for tm in ('any', 'any', 'none', 'timed'):
            check_message(s, gen.rand_ro(rng, n_stories=rng.randint(0, 6), pool=pool, timing=tm), False)
        for kind in B.ALL_KINDS:
            for j in range(3):
                pretty = (j % 2 == 0)
                doc = gen.rand_message(rng, state, kind, 8, ids, pool=pool, pretty=pretty,
                                       shape_weights=(0.6, 0.15, 0.2, 0.05), selfref=0.1)
                check_message(s, doc, pretty)
        # multi-ID lists with blanks at every position
        S_ = state.story_ids[:3] or ['q']
        for n in range(1, 5):
            for blank_at in range(-1, n):
                lst = [(BLANK if k == blank_at else (S_[k % len(S_)] + ('' if k < len(S_) else 'x%d' % k))) for k in range(n)]
                for kind in ('roStoryDelete', 'EAStoryDelete', 'EAStoryMove'):
                    for pretty in (False, True):
                        kw = dict(ids=lst)
                        if kind == 'EAStoryMove':
                            kw['target'] = BLANK
                        check_message(s, B.msg_doc(kind, 9, pretty=pretty, **kw), pretty)
                for kind in ('roItemDelete', 'EAItemDelete', 'EAItemMove', 'roItemMoveMultiple'):
                    for pretty in (False, True):
                        kw = dict(ids=lst, story_ref=S_[0])
                        if kind in ('EAItemMove', 'roItemMoveMultiple'):
                            kw['target'] = BLANK if blank_at != -1 else 'tgt'
                        check_message(s, B.msg_doc(kind, 9, pretty=pretty, **kw), pretty)
    # the repository's fixtures
    import os
    fixdir = os.path.join(os.environ.get('VERIF_REPO', '/repo'), 'tests', 'mock_mos')
    if os.path.isdir(fixdir) and s.wi == 0:
        for fn in sorted(os.listdir(fixdir)):
            if fn.endswith('.xml'):
                check_message(s, open(os.path.join(fixdir, fn), encoding='utf-8').read(), True)


def replay(s, data):
    w = data['witness']
    check_message(s, w['doc'], False)


def gates(agg, tier):
    r = []
    for kind, table in ACCESSORS.items():
        for a in table:
            K.need(agg, r, agg['hist'].get('message_accessor:%s.%s' % (kind, a), 0) > 0,
                   'accessor %s.%s never compared' % (kind, a))
    K.need(agg, r, agg['hist'].get('inspect_calls', 0) > 0, 'inspect() never called')
    K.need(agg, r, K.sig_has(agg, "'blank'"), 'no blank target observed')
    K.need(agg, r, K.sig_has(agg, "+blank"), 'no blank ID inside a source list observed')
    return r
