"""C09 - collection merge equals adding the messages one by one; strict / non-strict hold."""
import itertools
import os
import shutil
import tempfile

from .. import build as B
from .. import events as EV
from .. import gen
from ..canon import Abs
from . import common as K

META = {
    'rule': ('Sequences of 0-30 messages of all kinds over a random roCreate; for short sequences (n<=5 quick, n<=6 '
             'thorough) EVERY subset of positions is made a failing message (unresolvable target => MosMergeError), for '
             'long ones failing positions are random; messages after the roDelete (all fail) included; x {strict, '
             'non-strict} x {from_strings, from_files, from_s3 (fake bucket, 1-5 keys per page)}, inputs supplied '
             'shuffled. Oracle (offline over what the monitors recorded): str(mc) after mc.merge(strict) == text of a '
             'hand fold `ro += MosFile.from_string(doc)` over freshly parsed messages in ascending message ID, stopped '
             '(strict) at the first MosMergeError or skipping (non-strict) each failing one; strict: the same exception '
             'type propagates; non-strict: exactly one MosMergeNonStrictWarning per failing message, none otherwise, '
             'and the merge returns; the ADD monitor must have seen exactly one inner + per reader attempted. '
             'Signature = (constructor, strict, length class, number of failures, failure positions class, outcome).'),
    'exhaustive_part': 'failing-subset enumeration complete for sequence lengths up to the stated bound',
    'workers': {'quick': 12, 'thorough': 16},
    'watchdog': {'quick': 600, 'thorough': 3600},
}


def ok_or_failing(rng, state, k, fail, ids, pool):
    S = state.story_ids
    k = 90 + 10 * k      # message id = 100 + 10k
    if fail:
        c = rng.random()
        if c < 0.4:
            return B.msg_doc('roStoryReplace', 10 + k, target='NOPE-%d' % k, carried=[gen.simple_story(ids.new(), 1)])
        if c < 0.7:
            return B.msg_doc('roItemInsert', 10 + k, story_ref='NOPE', target=B.BLANK, carried=[B.item(ids.new(), 'x')])
        return B.msg_doc('EAStorySwap', 10 + k, ids=['NOPE-a', 'NOPE-b'])
    c = rng.random()
    if c < 0.4 or not S:
        return B.msg_doc('roStoryAppend', 10 + k, carried=[gen.simple_story(ids.new(), 2)])
    if c < 0.6:
        return B.msg_doc('roStoryInsert', 10 + k, target=S[0], carried=[gen.simple_story(ids.new(), 1)])
    if c < 0.8:
        return B.msg_doc('roMetadataReplace', 10 + k, carried=[B.E('roSlug', 'slug %d' % k)])
    return B.msg_doc('roStorySend', 10 + k, story_ref=S[-1], body=[B.E('p', 'sent %d' % k)], fields=[B.E('storySlug', 's'), 'BODY'])


def judge_twice(s, docs, how, tmpdir, first_strict=False):
    """merge() called twice on one collection == folding the messages twice over
    the same running order (every second-pass add is an add like any other).  With first_strict the
    first call is a strict one (it may stop at the first failing message); the second, non-strict call
    starts again from the first message."""
    import warnings as W
    mc, cerr = K.make_collection(s, docs, how, True, tmpdir)
    if mc is None:
        return
    e1, w1 = K.merge_collection(s, mc, first_strict)
    e2, w2 = K.merge_collection(s, mc, False)
    EV.drain()
    # reference: the hand fold, then every message again on the resulting object
    from ..spec import classify_doc
    from xml.etree import ElementTree as ET
    ordered = sorted(docs, key=K.message_id_of)
    create = [d for d in ordered if classify_doc(ET.fromstring(d)) == 'RunningOrder'][0]
    rest = [d for d in ordered if classify_doc(ET.fromstring(d)) != 'RunningOrder']
    ro = s.load(create)
    fails = [0, 0]
    foreign = False
    with W.catch_warnings():
        W.simplefilter('ignore')
        for p_ in (0, 1):
            for d in rest:
                try:
                    ro = ro + s.load(d)
                except s.exc.MosMergeError:
                    fails[p_] += 1
                    if p_ == 0 and first_strict:
                        break               # the strict pass stops at its first failing message
                except Exception:
                    foreign = True
    EV.drain()
    if foreign:
        return
    s.evaluations += 1
    n2 = w2.count('MosMergeNonStrictWarning')
    s.note_sig(('twice', how, first_strict, min(len(docs), 8), min(fails[1], 5), str(mc) == str(ro)))
    wit = {'type': 'collection', 'docs': docs, 'strict': False, 'how': how, 'twice': True, 'first_strict': first_strict}
    if str(mc) != str(ro) or e2 is not None or n2 != fails[1]:
        s.custom_violation('second-merge-call-differs-from-adding-the-messages-again',
                           {'second_pass_failures_in_fold': fails[1], 'second_pass_warnings': n2,
                            'exc': type(e2).__name__ if e2 else None, 'same_text': str(mc) == str(ro)},
                           wit, status='twice')


def all_schema_shaped(docs):
    from xml.etree import ElementTree as ET
    from ..spec import interpret
    try:
        return all(interpret(ET.fromstring(d)).tags_ok for d in docs)
    except Exception:
        return False


def judge_collection(s, docs, how, strict, tmpdir, label, allow_incomplete=True):
    mc, cerr = K.make_collection(s, docs, how, allow_incomplete, tmpdir)
    wit = {'type': 'collection', 'docs': docs, 'strict': strict, 'how': how, 'allow_incomplete': allow_incomplete}
    if mc is None:
        s.hist['collection_rejected:' + type(cerr).__name__] += 1
        if K.acceptable(docs, allow_incomplete) and 'MosRoMgrException' not in [c.__name__ for c in type(cerr).__mro__]:
            # one roCreate, one running-order ID, at most one roDelete: there is a collection to merge, and the
            # constructor left with something that is not even the library's own refusal
            s.evaluations += 1
            s.custom_violation('collection-result-differs-from-sequential-fold',
                               {'how': how, 'strict': strict, 'n_docs': len(docs), 'cannot_be_built': type(cerr).__name__,
                                'msg': str(cerr)[:120]}, wit, status='construct')
        elif how != 'strings':
            # the same documents through from_strings: if THAT collection exists, this one has to exist as well
            mc_s, _e = K.make_collection(s, docs, 'strings', allow_incomplete, tmpdir)
            if mc_s is not None:
                s.evaluations += 1
                s.custom_violation('collection-result-differs-from-sequential-fold',
                                   {'how': how, 'strict': strict, 'n_docs': len(docs),
                                    'cannot_be_built': type(cerr).__name__, 'msg': str(cerr)[:120],
                                    'note': 'from_strings over the same documents builds'}, wit, status='construct')
        return
    n_readers = len(mc.mos_readers)
    EV.drain()
    merr, wnames = K.merge_collection(s, mc, strict)
    adds = [e for e in EV.drain() if e.get('ev') == 'ADD']
    fold_text, n_failed, ferr, applied = K.hand_fold(s, docs, strict)
    EV.drain()
    s.evaluations += 1
    ns = wnames.count('MosMergeNonStrictWarning')
    oc = type(merr).__name__ if merr else 'ok'
    s.note_sig((how, strict, min(len(docs), 8) if len(docs) < 8 else 'long', min(n_failed, 5), label, oc))
    s.hist['collections:%s' % how] += 1
    s.hist['collection_outcome:%s:%s' % ('strict' if strict else 'nonstrict', oc)] += 1
    det = {'how': how, 'strict': strict, 'n_docs': len(docs), 'n_failed_in_fold': n_failed,
           'merge_exc': oc, 'fold_exc': type(ferr).__name__ if ferr else None, 'non_strict_warnings': ns}
    if str(mc) != fold_text:
        s.custom_violation('collection-result-differs-from-sequential-fold', det, wit, status=str(strict))
    if strict:
        if (merr is None) != (ferr is None) or (merr is not None and type(merr) is not type(ferr)):
            s.custom_violation('strict-propagation-differs-from-fold', det, wit, status='strict')
        if ns:
            s.custom_violation('non-strict-warning-in-strict-mode', det, wit, status='strict')
    else:
        foreign = ferr is not None       # the fold stopped on a non-MosMergeError as well
        if foreign and merr is not None and all_schema_shaped(docs):
            # every message has the tags its type requires, and the non-strict merge did not run to the end
            s.custom_violation('non-strict-merge-raised', dict(det, note='the one-by-one fold raises the same way'), wit,
                               status='nonstrict')
        if not foreign:
            if merr is not None:
                s.custom_violation('non-strict-merge-raised', det, wit, status='nonstrict')
            elif ns != n_failed:
                s.custom_violation('non-strict-warning-count-differs-from-failing-messages', det, wit, status='nonstrict')
    expected_adds = n_readers if (merr is None) else None
    if expected_adds is not None and len(adds) != expected_adds:
        s.custom_violation('inner-add-count-differs-from-readers', dict(det, adds=len(adds), readers=n_readers), wit)
    if len(s.samples) < 3 and n_failed:
        s.samples.append({'constructor': how, 'strict': strict, 'message_ids': sorted(K.message_id_of(d) for d in docs),
                          'failing_in_fold': n_failed, 'merge_outcome': oc, 'non_strict_warnings': ns})


def run(s):
    K.hostile_callers(s)
    q = s.tier == 'quick'
    tmpdir = tempfile.mkdtemp(prefix='verif-c09-')
    try:
        idx = 0
        nmax = 5 if q else 7
        hows = ('strings', 'files', 's3')
        for n in range(0, nmax + 1):
            for mask in itertools.product((0, 1), repeat=n):
                for with_end in (False, True):
                    idx += 1
                    if not s.mine(idx):
                        continue
                    rng = s.rng('subset', idx)
                    pool = gen.text_pool('plain')
                    # the roCreate is not always the message with the lowest ID
                    ro_txt = gen.rand_ro(rng, n_stories=rng.randint(1, 4), pool=pool,
                                         message_id=rng.choice([1, 1, 104, 117]))
                    state = Abs(ro_txt)
                    ids = gen.Ids('T%d.' % idx)
                    docs = [ro_txt] + [ok_or_failing(rng, state, k, f, ids, pool) for k, f in enumerate(mask)]
                    if with_end:
                        # roDelete between message cut-1 and cut: everything after it fails
                        cut = rng.randint(0, n)
                        docs.append(B.msg_doc('roDelete', 100 + 10 * cut - 5))
                    rng.shuffle(docs)
                    how = hows[idx % 3]
                    for strict in (True, False):
                        judge_collection(s, docs, how, strict, tmpdir, 'subset' + ('+end' if with_end else ''))
        n_long = 400 if q else 15000
        for c in range(n_long):
            if not s.mine(c):
                continue
            rng = s.rng('long', c)
            pool = gen.text_pool('plain')
            if c % 4 == 2:
                pool = gen.text_pool('hostile')      # non-ASCII text, and (below) strings that still carry a declaration
            ro_txt = gen.rand_ro(rng, n_stories=rng.randint(0, 5), pool=pool, message_id=rng.choice([1, 1, 1, 14, 23]),
                                 ed_start='wild' if c % 4 == 1 else 'auto')
            state = Abs(ro_txt)
            ids = gen.Ids('L%d.' % c)
            docs = [ro_txt]
            n = rng.randint(0, 30)
            end_at = rng.randint(0, n) if rng.random() < 0.5 else None
            for k in range(n):
                kind = K.weighted_kinds(rng, K.kind_weights(1, 1, 0.3, 0.0))
                if end_at == k:
                    kind = 'roDelete'
                docs.append(gen.rand_message(rng, state, kind, 10 + k, ids, pool=pool,
                                             shape_weights=(0.6, 0.25, 0.12, 0.03), selfref=0.1))
            if c % 6 == 4 and len(docs) > 2:
                # message IDs need not be unique across types: one message carries the roCreate's ID, and a
                # roReadyToAir (it commutes with its neighbour) carries the ID of another message
                import re as _re
                cid = _re.search(r'<messageID>[^<]*</messageID>', docs[0])
                j_ = rng.randrange(1, len(docs))
                if cid:
                    docs[j_] = _re.sub(r'<messageID>[^<]*</messageID>', cid.group(0), docs[j_], 1)
                partners = [d_ for d_ in docs[1:] if '<roDelete>' not in d_ and d_ is not docs[j_] and
                            _re.search(r'<messageID>([^<]*)</messageID>', d_)]
                if partners:
                    pid = _re.search(r'<messageID>([^<]*)</messageID>', rng.choice(partners)).group(1)
                    docs.append(B.msg_doc('roReadyToAir', 5).replace('<messageID>5</messageID>',
                                                                     '<messageID>%s</messageID>' % pid))
                s.hist['collections_with_shared_message_ids'] += 1
            if c % 5 == 2:
                docs = [d.replace('<mosID>MOS ID</mosID>', '<mosID>%s</mosID><ncsID>%s</ncsID>' % (
                    rng.choice(['MOS ID', 'MOS B']), rng.choice(['NCS1', 'NCS2', 'ncs.backup'])), 1) for d in docs]
            if c % 7 == 3:
                # the "roCreate" handed in is a running order that was already completed and written out
                base = s.load(ro_txt)
                base, _e, _w = s.add(base, s.load(B.msg_doc('roDelete', 2)))
                EV.drain()
                docs[0] = str(base)
            rng.shuffle(docs)
            if c % 4 == 2 and hows[c % 3] == 'strings':
                # a str has no encoding: a declaration left in it (text read from a Latin-1 file) changes nothing
                docs = [('<?xml version="1.0" encoding="ISO-8859-1"?>\n' + d) if not d.lstrip().startswith('<?xml') and
                        '<!DOCTYPE' not in d else d for d in docs]
                s.hist['collections_of_declared_strings'] += 1
            for strict in (True, False):
                judge_collection(s, docs, hows[c % 3], strict, tmpdir, 'random' if c % 7 != 3 else 'completed-base')
            if c % 5 == 1:
                judge_twice(s, docs, hows[c % 3], tmpdir)
            if c % 5 == 3:
                judge_twice(s, docs, hows[c % 3], tmpdir, first_strict=True)
    finally:
        shutil.rmtree(tmpdir, ignore_errors=True)


def replay(s, data):
    w = data['witness']
    tmpdir = tempfile.mkdtemp(prefix='verif-c09-')
    try:
        if w.get('twice'):
            judge_twice(s, w['docs'], w.get('how', 'strings'), tmpdir, first_strict=w.get('first_strict', False))
            return
        judge_collection(s, w['docs'], w.get('how', 'strings'), w['strict'], tmpdir, 'replay',
                         w.get('allow_incomplete', True))
    finally:
        shutil.rmtree(tmpdir, ignore_errors=True)


def gates(agg, tier):
    r = []
    for how in ('strings', 'files', 's3'):
        K.need(agg, r, agg['hist'].get('collections:' + how, 0) > 0, 'constructor %s never used' % how)
    K.need(agg, r, any(k.startswith('collection_outcome:strict:') and not k.endswith(':ok') and v > 0
                       for k, v in agg['hist'].items()), 'no strict propagation observed')
    K.need(agg, r, any(sg.startswith("('") and ", False, " in sg and ", 2, " in sg for sg in agg['sigs']) or
           any(", False, " in sg and (", 3, " in sg or ", 4, " in sg) for sg in agg['sigs']),
           'no non-strict run with >= 2 failing messages')
    K.need(agg, r, agg['hist'].get('collection_outcome:nonstrict:ok', 0) > 0, 'no non-strict merge ran to the end')
    return r
