"""C06 - nothing named by a message is skipped silently."""
from .. import build as B
from .. import gen
from ..canon import Abs
from . import common as K

META = {
    'rule': ('n in 1..4 named elements x every subset of them unresolvable (unknown or blank) or duplicate x every '
             'kind that names a list or can warn (roStoryDelete, roItemDelete, roElementAction DELETE/MOVE for stories '
             'and items, roItemMoveMultiple, roStoryInsert / roElementAction INSERT with duplicates, roStorySend of an '
             'unknown story) x varied pre-states; plus the grids and random histories. On return the multiset of '
             'mosromgr warnings emitted inside the call (recorded at the emission point, independent of filters) must '
             'equal the relation\'s, the remaining elements must be applied, a fully applied message emits none; the '
             'emitted count must equal the count delivered under an always filter. Signature = transition signature.'),
    'exhaustive_part': 'subset x list-length grid complete to n<=4 for each sampled state',
    'workers': {'quick': 12, 'thorough': 16},
    'watchdog': {'quick': 600, 'thorough': 3600},
}


def run(s):
    K.suite_workload(s)
    K.fixtures_workload(s)
    K.collision_cases(s)
    K.recreate_cases(s)
    K.large_cases(s, 24 if s.tier == 'quick' else 600, 'both')
    K.pair_histories(s)
    q = s.tier == 'quick'
    idx = 0
    for n in range(1, 5 if q else 6):
        S = K.STORY_NAMES[:n]
        for layout in (('none', 'everywhere') if q else K.LAYOUTS):
            ro_txt = gen.grid_ro(S, layout, pretty=(n % 2 == 0))
            for kind, kw, nn, mask in K.subset_cases(S, 'story'):
                idx += 1
                if s.mine(idx):
                    K.run_case(s, ro_txt, kind, kw, ctx={'subset': mask})
        for inter in (False, True):
            I = ['i%d' % k for k in range(n)]
            stories = [gen.simple_story('A', 2, item_prefix='i'), gen.simple_story('B', n, item_prefix='i', inter=inter)]
            ro_txt = B.ro_doc('RO', 1, stories)
            for kind, kw, nn, mask in K.subset_cases(I, 'item', story_ref='B'):
                idx += 1
                if s.mine(idx):
                    K.run_case(s, ro_txt, kind, kw, ctx={'subset': mask})
    s.hist['subset_cases_total'] = idx
    K.story_grid(s, 3, layouts=('between',), pretties=(False,), full=False)
    K.story_grid(s, 4, layouts=('before',), pretties=(True,), kmax=2, full=False, names=K.HOSTILE_NAMES)
    K.story_grid(s, 4, layouts=('before',), pretties=(True,), kmax=2, full=False, names=K.HOSTILE_NAMES_B)
    K.item_grid(s, 4, pretties=(False,), kmax=2, full=False, inters=(True,), item_names=K.HOSTILE_NAMES)
    K.item_grid(s, 4, pretties=(False,), kmax=2, full=False, inters=(True,), item_names=K.HOSTILE_NAMES_B)
    K.story_grid(s, 3, layouts=('before',), pretties=(False,), kmax=2, full=False, names=K.LONG_NAMES)
    K.item_grid(s, 3, pretties=(False,), kmax=2, full=False, inters=(False,), item_names=K.LONG_NAMES)
    K.item_grid(s, 3, pretties=(False,), full=False, inters=(False,))
    K.many_unresolvable(s)
    K.story_grid(s, 4, layouts=('before',), pretties=(False,), kmax=2, full=False, names=K.HOSTILE_NAMES_C)
    K.story_grid(s, 4, layouts=('before',), pretties=(False,), kmax=2, full=False, names=K.HOSTILE_NAMES_D)
    K.item_grid(s, 4, pretties=(False,), kmax=2, full=False, inters=(False,), item_names=K.HOSTILE_NAMES_C)
    K.item_grid(s, 4, pretties=(False,), kmax=2, full=False, inters=(False,), item_names=K.HOSTILE_NAMES_D)
    collection_reports(s, 60 if q else 3000)
    repeated_id_deletes(s)
    under_error_filter(s)
    under_module_filter(s)
    under_raising_log_handler(s)
    aligned_block_deletes(s)
    K.idless_cases(s)
    K.fuzz(s, 120 if q else 12000, K.kind_weights(1, 1, 0.3), steps=(5, 25),
           shape_weights=(0.6, 0.25, 0.12, 0.03), selfref=0.1, direct=0.3)


def under_module_filter(s):
    """A host that keeps Python's default warning action (once per location) and turns mosromgr's warnings on by
    MODULE - filterwarnings('always', module='mosromgr...'), -W always:::mosromgr.mostypes, pytest's ini filters:
    every report is delivered there as well (the library's warnings are issued in the library's name)."""
    import warnings as W
    from .. import events as EV
    idx = 0
    S = ['A', 'B', 'C']
    ro_txt = gen.grid_ro(S, 'before', pretty=False)
    iro_txt = B.ro_doc('RO', 1, [gen.simple_story('A', 2, item_prefix='i'), gen.simple_story('B', 3, item_prefix='i')])
    cats = ('StoryNotFoundWarning', 'ItemNotFoundWarning', 'DuplicateStoryWarning')
    for txt, cases in ((ro_txt, list(K.subset_cases(S, 'story', nmax=3))),
                       (iro_txt, list(K.subset_cases(['i0', 'i1', 'i2'], 'item', story_ref='B', nmax=3)))):
        for kind, kw, nn, mask in cases:
            idx += 1
            if not s.mine(idx) or sum(1 for m_ in mask if m_) < 2:
                continue
            msg_txt = B.msg_doc(kind, 7, **kw)
            _ro, err0, wl0 = s.add(s.load(txt), s.load(msg_txt))
            EV.drain()
            want = sorted(type(w.message).__name__ for w in wl0 if type(w.message).__name__ in cats)
            if err0 is not None or len(want) < 2:
                continue
            ro, msg = s.load(txt), s.load(msg_txt)
            with W.catch_warnings(record=True) as wl1:
                W.resetwarnings()
                W.simplefilter('default')
                W.filterwarnings('always', module=r'mosromgr(\..*)?$')
                try:
                    ro + msg
                    err1 = None
                except Exception as e:
                    err1 = e
            EV.drain()
            got = sorted(type(w.message).__name__ for w in wl1 if type(w.message).__name__ in cats)
            s.evaluations += 1
            s.note_sig(('module-filter', kind, mask, got == want))
            s.hist['cases_under_a_module_filter'] += 1
            if err1 is not None or got != want:
                s.custom_violation('report-not-delivered-under-a-module-filter',
                                   {'kind': kind, 'mask': list(mask), 'under_always': want, 'under_module_filter': got,
                                    'exc': type(err1).__name__ if err1 else None},
                                   {'type': 'module-filter', 'ro_txt': txt, 'msg_txt': msg_txt}, msg_kind=kind, status='module-filter')


def under_raising_log_handler(s):
    """The host's log handler fails (a full disk, a closed socket) from the first record on. Whatever the merge
    does then - when it RETURNS, every report it owes has been delivered as a warning."""
    import logging
    import warnings as W
    from .. import events as EV

    class Failing(logging.Handler):
        def emit(self, record):
            raise OSError(28, 'No space left on device (injected by the verification workload)')
    idx = 0
    S = ['A', 'B', 'C']
    ro_txt = gen.grid_ro(S, 'before', pretty=False)
    iro_txt = B.ro_doc('RO', 1, [gen.simple_story('A', 2, item_prefix='i'), gen.simple_story('B', 3, item_prefix='i')])
    cats = ('StoryNotFoundWarning', 'ItemNotFoundWarning', 'DuplicateStoryWarning')
    lg = logging.getLogger('mosromgr')
    for txt, cases in ((ro_txt, list(K.subset_cases(S, 'story', nmax=2))),
                       (iro_txt, list(K.subset_cases(['i0', 'i1', 'i2'], 'item', story_ref='B', nmax=2)))):
        for kind, kw, nn, mask in cases:
            idx += 1
            if not s.mine(idx) or not any(mask):
                continue
            _log_handler_case(s, txt, B.msg_doc(kind, 7, **kw), kind, mask)


def _log_handler_case(s, txt, msg_txt, kind, mask):
    import logging
    from .. import events as EV

    class Failing(logging.Handler):
        def emit(self, record):
            raise OSError(28, 'No space left on device (injected by the verification workload)')
    cats = ('StoryNotFoundWarning', 'ItemNotFoundWarning', 'DuplicateStoryWarning')
    lg = logging.getLogger('mosromgr')
    _ro, err0, wl0 = s.add(s.load(txt), s.load(msg_txt))
    EV.drain()
    want = sorted(type(w.message).__name__ for w in wl0 if type(w.message).__name__ in cats)
    if err0 is not None or not want:
        return
    h = Failing(level=logging.DEBUG)
    old = (lg.level, lg.disabled, lg.propagate, logging.root.manager.disable)
    lg.addHandler(h)
    lg.setLevel(logging.DEBUG)
    lg.disabled = False
    logging.disable(logging.NOTSET)
    try:
        _ro, err1, wl1 = s.add(s.load(txt), s.load(msg_txt))
    finally:
        lg.removeHandler(h)
        lg.setLevel(old[0])
        lg.disabled = old[1]
        logging.disable(old[3])
    EV.drain()
    got = sorted(type(w.message).__name__ for w in wl1 if type(w.message).__name__ in cats)
    s.evaluations += 1
    s.note_sig(('raising-log-handler', kind, tuple(mask), type(err1).__name__ if err1 else 'returned'))
    s.hist['cases_under_a_raising_log_handler'] += 1
    if err1 is None and got != want:
        s.custom_violation('report-lost-when-the-log-handler-fails',
                           {'kind': kind, 'mask': list(mask), 'normally': want, 'delivered': got},
                           {'type': 'log-handler', 'ro_txt': txt, 'msg_txt': msg_txt, 'kind': kind, 'mask': list(mask)},
                           msg_kind=kind, status='log-handler')


def aligned_block_deletes(s):
    """Deletes of 4-6 IDs whose first and last named elements stand exactly as far apart as the list is long,
    while an ID in the middle is unknown, repeated or names an element outside the span: every ID is acted
    upon or reported on its own, nothing in between is taken along."""
    idx = 0
    S = ['E1', 'E2', 'E3', 'E4', 'E5', 'E6', 'E7']
    ro_txt = gen.grid_ro(S, 'none', pretty=False)
    I = ['i%d' % k for k in range(7)]
    iro_txt = B.ro_doc('RO', 1, [gen.simple_story('A', 1), gen.simple_story('B', 7, item_prefix='i')])
    def lists(N):
        return [[N[1], 'GONE', N[3], N[4]], [N[1], N[3], N[2], N[4]], [N[1], N[1], N[3], N[4]], [N[1], N[6], N[3], N[4]],
                [N[1], N[2], 'GONE', N[4], N[5]], [N[0], 'GONE', 'GONE2', N[3]], [N[2], N[0], N[6], N[5]],
                [N[1], N[2], N[3], N[4]], [N[4], N[3], N[2], N[1]], [N[1], 'GONE', N[3], N[4], N[5], N[6]]]
    for kind, txt, N, kw0 in (('roStoryDelete', ro_txt, S, {}), ('EAStoryDelete', ro_txt, S, {}),
                              ('roItemDelete', iro_txt, I, {'story_ref': 'B'}), ('EAItemDelete', iro_txt, I, {'story_ref': 'B'}),
                              ('EAStoryMove', ro_txt, S, {'target': 'E7'}), ('EAItemMove', iro_txt, I, {'story_ref': 'B', 'target': 'i6'}),
                              ('roItemMoveMultiple', iro_txt, I, {'story_ref': 'B', 'target': 'i6'})):
        for ids in lists(N):
            if kw0.get('target') in ids:
                continue
            idx += 1
            if s.mine(idx):
                K.run_case(s, txt, kind, dict(kw0, ids=ids), ctx={'aligned-block': True})
    s.hist['aligned_block_cases'] = idx


def under_error_filter(s):
    """The caller has turned warnings into errors: a message that (under an always filter) is applied with a
    report about an element must not come back silently now - the report arrives as the exception. What the
    running order holds afterwards is not judged here (DESIGN 9)."""
    from .. import events as EV
    idx = 0
    S = ['A', 'B', 'C']
    ro_txt = gen.grid_ro(S, 'before', pretty=False)
    I = ['i0', 'i1', 'i2']
    iro_txt = B.ro_doc('RO', 1, [gen.simple_story('A', 2, item_prefix='i'), gen.simple_story('B', 3, item_prefix='i')])
    extra = [('roStorySend', dict(story_ref='zz-unk', body=[B.E('p', 'x')], fields=['BODY']), 1, (1,))]
    for txt, cases in ((ro_txt, list(K.subset_cases(S, 'story', nmax=2)) + extra),
                       (iro_txt, list(K.subset_cases(I, 'item', story_ref='B', nmax=2)))):
        for kind, kw, nn, mask in cases:
            idx += 1
            if not s.mine(idx) or not any(mask):
                continue
            msg_txt = B.msg_doc(kind, 7, **kw)
            _ro, err0, wl0 = s.add(s.load(txt), s.load(msg_txt))
            EV.drain()
            reports = [type(w.message).__name__ for w in wl0 if type(w.message).__name__ in
                       ('StoryNotFoundWarning', 'ItemNotFoundWarning', 'DuplicateStoryWarning')]
            if err0 is not None or not reports:
                continue
            _ro, err1, wl1 = s.add(s.load(txt), s.load(msg_txt), error_on=Warning)
            EV.drain()
            s.evaluations += 1
            s.note_sig(('error-filter', kind, mask, type(err1).__name__ if err1 else 'returned'))
            s.hist['cases_under_error_filter'] += 1
            if err1 is None:
                s.custom_violation('element-skipped-silently-under-an-error-filter',
                                   {'kind': kind, 'mask': list(mask), 'reports_under_always_filter': reports},
                                   {'type': 'error-filter', 'ro_txt': txt, 'msg_txt': msg_txt}, msg_kind=kind, status='error-filter')


def repeated_id_deletes(s):
    """Running orders / stories in which an ID occurs twice, and deletes that list it once, twice, three times."""
    idx = 0
    for names in (['A', 'X', 'B', 'X'], ['X', 'X', 'A'], ['A', 'X', 'X']):
        ro_txt = gen.grid_ro(names, 'before', pretty=False)
        for kind in ('roStoryDelete', 'EAStoryDelete'):
            for ids in (['X'], ['X', 'X'], ['X', 'X', 'X'], ['X', 'A', 'X'], ['A', 'X'], ['gone', 'X', 'X']):
                idx += 1
                if s.mine(idx):
                    K.run_case(s, ro_txt, kind, dict(ids=ids), ctx={'repeated-ids': 'story'})
    # ... and messages that name none of the repeated stories: fully applied, nothing to report, nothing else touched
    new = lambda i: gen.simple_story(i, 1)
    for names in (['A', 'X', 'B', 'X'], ['X', 'X', 'A']):
        ro_txt = gen.grid_ro(names, 'before', pretty=False)
        for kind, kw in [('roStoryAppend', dict(carried=[new('N1')])), ('roStoryInsert', dict(target='A', carried=[new('N1'), new('N2')])),
                         ('EAStoryInsert', dict(target='A', carried=[new('N1')])), ('EAStoryInsert', dict(target=B.BLANK, carried=[new('N1')])),
                         ('roStoryInsert', dict(target='A', carried=[new('N1'), new('A')])),
                         ('roStoryReplace', dict(target='A', carried=[new('N1')])), ('roStoryMove', dict(ids=['A'], target=B.BLANK)),
                         ('roItemInsert', dict(story_ref='A', target=B.BLANK, carried=[B.item('n', 'x')]))]:
            idx += 1
            if s.mine(idx):
                K.run_case(s, ro_txt, kind, kw, ctx={'repeated-ids': 'unrelated message'})
    for order in (['i', 'j', 'i'], ['i', 'i', 'j'], ['j', 'i', 'i']):
        st = gen.simple_story('S', 0)
        for k, n in enumerate(order):
            st.append(B.item(n, 'copy %d' % k))
        ro_txt = B.ro_doc('RO', 1, [gen.simple_story('Z', 2, item_prefix='i'), st], ed_start='2020-01-01T12:30:00')
        for kind in ('roItemDelete', 'EAItemDelete'):
            for ids in (['i'], ['i', 'i'], ['i', 'i', 'i'], ['i', 'j', 'i'], ['gone', 'i', 'i']):
                idx += 1
                if s.mine(idx):
                    K.run_case(s, ro_txt, kind, dict(story_ref='S', ids=ids), ctx={'repeated-ids': 'item'})
    # a roReplace / roStoryAppend that itself carries an ID twice is applied as sent: nothing is skipped, nothing to report
    ro_txt = gen.grid_ro(['A', 'B'], 'before', pretty=False)
    for names in (['X', 'Y', 'X'], ['X', 'X'], ['A', 'A', 'B']):
        idx += 1
        if s.mine(idx):
            rr = gen.grid_ro(names, 'none').replace('roCreate', 'roReplace').replace(
                '<messageID>1</messageID>', '<messageID>9</messageID>')
            s.step(s.load(ro_txt), rr, {'repeated-ids': 'roReplace'})
    s.hist['repeated_id_delete_cases'] = idx


def collection_reports(s, n):
    """Through a (non-strict) collection nothing is skipped silently either: every message is added
    (one ADD event per reader), and the warnings are those of adding the messages one by one - also
    when several consecutive messages name the same missing story."""
    from .. import events as EV
    for c in range(n):
        if not s.mine(c):
            continue
        rng = s.rng('coll', c)
        pool = gen.text_pool('plain')
        ro_txt = gen.grid_ro(['A', 'B', 'C'], 'before', pretty=False)
        docs = [ro_txt]
        mid = 10
        k = rng.randint(2, 4)
        for j in range(k):
            # the same missing story, sent again and again
            docs.append(B.msg_doc('roStorySend', mid, story_ref='GONE', body=[B.E('p', 'version %d' % j)],
                                  fields=[B.E('storySlug', 'v%d' % j), 'BODY']))
            mid += 1
        for j in range(rng.randint(0, 3)):
            kind = rng.choice(['roStoryDelete', 'EAStoryDelete', 'roItemDelete'])
            if kind == 'roItemDelete':
                docs.append(B.msg_doc(kind, mid, story_ref='A', ids=['nope-%d' % j, 'A.0'][:rng.randint(1, 2)]))
            else:
                docs.append(B.msg_doc(kind, mid, ids=['nope-%d' % j] + (['B'] if j == 0 else [])))
            mid += 1
        if c % 2:
            # two stories arrive, a message is refused outright, then a delete names one of the new stories and a ghost
            docs.append(B.msg_doc('roStoryInsert', mid, target='B', carried=[gen.simple_story('N1', 1), gen.simple_story('N2', 1)]))
            docs.append(B.msg_doc('roStoryReplace', mid + 1, target='NOWHERE', carried=[gen.simple_story('N9', 1)]))
            docs.append(B.msg_doc('roStoryDelete', mid + 2, ids=['N1', 'GHOST', 'C']))
            docs.append(B.msg_doc('EAStorySwap', mid + 3, ids=['N2', 'A'], target=B.BLANK))
        docs.append(B.msg_doc('roDelete', 900))
        rng.shuffle(docs)
        judge_collection_reports(s, docs)


def judge_collection_reports(s, docs):
    import warnings as W
    from .. import events as EV
    EV.drain()
    mc, cerr, merr, wl = K.collection_merge(s, docs, False, allow_incomplete=True)
    if mc is None:
        return
    got = sorted(type(w.message).__name__ for w in wl if type(w.message).__name__ in
                 ('StoryNotFoundWarning', 'ItemNotFoundWarning', 'DuplicateStoryWarning'))
    # reference: the same messages added one by one, freshly read, in message-ID order
    from ..spec import classify_doc
    from xml.etree import ElementTree as ET
    ordered = sorted(docs, key=K.message_id_of)
    create = [d for d in ordered if classify_doc(ET.fromstring(d)) == 'RunningOrder'][0]
    ro = s.load(create)
    want = []
    for d in ordered:
        if d is create:
            continue
        ro, err, w1 = s.add(ro, s.load(d))
        want += [type(w.message).__name__ for w in w1]
    EV.drain()
    want = sorted(x for x in want if x in ('StoryNotFoundWarning', 'ItemNotFoundWarning', 'DuplicateStoryWarning'))
    s.evaluations += 1
    s.note_sig(('collection-reports', len(docs), len(want), got == want))
    s.hist['collection_reports'] += 1
    if got != want or merr is not None:
        s.custom_violation('collection-merge-reports-differ-from-adding-one-by-one',
                           {'collection': got, 'one_by_one': want, 'merge_exc': type(merr).__name__ if merr else None},
                           {'type': 'collection-reports', 'docs': docs}, status='collection')


def replay(s, data):
    w = data['witness']
    if w.get('type') == 'collection-reports':
        return judge_collection_reports(s, w['docs'])
    if w.get('type') == 'log-handler':
        return _log_handler_case(s, w['ro_txt'], w['msg_txt'], w.get('kind'), w.get('mask', ()))
    if w.get('type') == 'module-filter':
        import warnings as W
        from .. import events as EV
        _ro, err0, wl0 = s.add(s.load(w['ro_txt']), s.load(w['msg_txt']))
        cats = ('StoryNotFoundWarning', 'ItemNotFoundWarning', 'DuplicateStoryWarning')
        want = sorted(type(x.message).__name__ for x in wl0 if type(x.message).__name__ in cats)
        ro, msg = s.load(w['ro_txt']), s.load(w['msg_txt'])
        with W.catch_warnings(record=True) as wl1:
            W.resetwarnings()
            W.simplefilter('default')
            W.filterwarnings('always', module=r'mosromgr(\..*)?$')
            ro + msg
        EV.drain()
        got = sorted(type(x.message).__name__ for x in wl1 if type(x.message).__name__ in cats)
        s.evaluations += 1
        if got != want:
            s.custom_violation('report-not-delivered-under-a-module-filter', {'under_always': want, 'under_module_filter': got}, w,
                               status='module-filter')
        return
    if w.get('type') == 'error-filter':
        from .. import events as EV
        _ro, err1, _wl = s.add(s.load(w['ro_txt']), s.load(w['msg_txt']), error_on=Warning)
        EV.drain()
        s.evaluations += 1
        if err1 is None:
            s.custom_violation('element-skipped-silently-under-an-error-filter', {}, w, status='error-filter')
        return
    K.replay_transition(s, data)


def gates(agg, tier):
    r = []
    for w in ('StoryNotFoundWarning', 'ItemNotFoundWarning', 'DuplicateStoryWarning'):
        K.need(agg, r, agg['hist'].get('warning:' + w, 0) > 0, 'warning category %s never observed' % w)
    K.need(agg, r, K.sig_has(agg, "'EAStoryDelete'", ", 3, 0)"), 'no 3-ID EAStoryDelete observed')
    K.need(agg, r, agg['hist'].get('cases_under_error_filter', 0) > 0, 'no case was run under an error filter')
    K.need(agg, r, K.sig_has(agg, "'EAItemDelete'", ", 2, 0)"), 'no multi-ID EAItemDelete observed')
    K.need(agg, r, K.sig_has(agg, "'EAStoryMove'", ", 2, 0)"), 'no multi-ID EAStoryMove observed')
    K.need(agg, r, agg['hist'].get('outcome:warn', 0) > 0, 'no warn-and-continue outcome observed')
    return r
