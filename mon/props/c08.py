"""C08 - classification is total, and decided only by the message element."""
import os
import random
import sys
import tempfile
import warnings as W
from xml.etree import ElementTree as ET

from .. import build as B
from .. import gen
from ..build import E
from ..canon import MESSAGE_TAGS
from ..spec import classify_doc, TAG_CLASS, EA_TABLE
from . import common as K

ALL_CLASSES = sorted(set(TAG_CLASS.values()) | set(EA_TABLE.values()))

META = {
    'rule': ('Documents: each of the 16 message elements x envelope variants (extra root children, message element '
             'first / last, root attributes) x payload variants (EMPTY element, minimal, rich, message-named elements '
             'nested deep inside the payload, pretty / compact); roElementAction: 9 operation values (5 + unknown, '
             'lower-case, empty, missing) x 5 target shapes x 7 source shapes; non-MOS XML; truncations / byte '
             'deletions / bad entities of valid documents. Oracle: class decided by a table on the direct children of '
             'the root (spec.classify_doc), MosInvalidXML iff the text is not well-formed. Each document is classified '
             'from str, bytes and a file, under warning filters default and error in-process, and the whole batch is '
             'repeated in fresh interpreters started with -W error and -W default. Signature = (configuration, source '
             'kind, filter, expected outcome, variant).'),
    'exhaustive_part': 'roElementAction operation x target shape x source shape product is complete (315 shapes)',
    'workers': {'quick': 6, 'thorough': 12},
    'watchdog': {'quick': 600, 'thorough': 3600},
    'configs': [
        {'name': 'default', 'pyflags': ()},
        {'name': 'Werror', 'pyflags': ('-W', 'error'), 'workers': 4},
        {'name': 'Wdefault', 'pyflags': ('-W', 'default'), 'workers': 2},
    ],
    'assumptions': ['documents with two different top-level message elements and documents whose root is a message '
                    'element are outside the claim'],
}

OPS = ['INSERT', 'REPLACE', 'MOVE', 'DELETE', 'SWAP', 'FROB', 'insert', '', None]
TSHAPES = ['none', 'empty', 'story', 'story+item', 'item', 'story+item+item']     # whether, not how many
SSHAPES = ['none', 'empty', 'storyID', 'itemID', 'story', 'item', 'both', 'itemID+itemID']


def ea_doc(op, tsh, ssh, pretty=False, extra_first=False):
    ea = E('roElementAction', attrib=({} if op is None else {'operation': op}))
    ea.append(E('roID', 'RO'))
    if tsh != 'none':
        t = E('element_target')
        if 'story' in tsh:
            t.append(E('storyID', 'A'))
        if 'item' in tsh:
            t.append(E('itemID', None if extra_first else 'i'))
        if tsh.endswith('item+item'):
            t.append(E('itemID', 'i2'))
        ea.append(t)
    if ssh != 'none':
        src = E('element_source')
        if ssh in ('storyID', 'both'):
            src.append(E('storyID', 'B'))
        if ssh in ('itemID', 'both', 'itemID+itemID'):
            src.append(E('itemID', 'j'))
        if ssh == 'itemID+itemID':
            src.append(E('itemID', 'j2'))
        if ssh == 'story':
            src.append(gen.simple_story('N', 1))
        if ssh == 'item':
            src.append(B.item('n', 'x'))
        ea.append(src)
    return B.to_text(B.envelope(3, ea, body_first=extra_first), pretty)


def tag_docs(rng, tag, n):
    """Variants of a document whose message element is `tag`."""
    pool = gen.text_pool('hostile')
    out = []
    for k in range(n):
        variant = ['empty', 'minimal', 'rich', 'nested-message-names', 'body-first', 'extra-envelope', 'attrs',
                   'foreign-ns-message-name', 'root-default-ns', 'doctype', 'noise', 'duplicate-story-ids',
                   'root-named-like-a-message', 'bare-message-root', 'quoted-mos-document'][k % 15]
        m = E(tag)
        if tag == 'roElementAction':
            m.set('operation', 'DELETE')
            m.append(E('roID', 'RO'))
            m.append(E('element_source', None, E('storyID', 'A')))
        elif variant != 'empty':
            m.append(E('roID', 'RO'))
        if variant == 'duplicate-story-ids' and tag != 'roElementAction':
            for sid_ in ('A', 'B', 'A'):          # the payload repeats a story ID: irrelevant to classification
                m.append(gen.simple_story(sid_, 1))
        if variant in ('rich', 'nested-message-names') and tag != 'roElementAction':
            m.append(gen.rich_blob(rng, 3, pool, 'payload'))
        if variant == 'nested-message-names' and tag != 'roElementAction':
            other = rng.choice([t for t in MESSAGE_TAGS if t != tag])
            m.append(E('wrapper', None, E(other, None, E('roID', 'deep')), E('mosromgrmeta', None, E('roDelete'))))
        env = {}
        if variant == 'body-first':
            env['body_first'] = True
        if variant == 'extra-envelope':
            env['extra'] = [gen.rich_blob(rng, 2, pool, 'mosExtra'), E('ncsItem', 'x')]
        if variant == 'attrs':
            env['root_attrib'] = {'version': '2.8', 'x': rng.choice(pool)}
        if variant == 'foreign-ns-message-name':
            # an element of another namespace whose LOCAL name is a message tag, next to the real one
            other = rng.choice([t for t in MESSAGE_TAGS if t != tag])
            env['extra'] = [E('{urn:vendor:ext}' + other, None, E('roID', 'RO'))]
            env['body_first'] = rng.random() < 0.5
        doc = B.to_text(B.envelope(7, m, **env), pretty=rng.random() < 0.5)
        if variant == 'root-default-ns':
            doc = doc.replace('<mos', '<mos xmlns="urn:not:mos"', 1)      # every element is in a foreign namespace
        if variant == 'doctype':
            doc = rng.choice(['<!DOCTYPE mos>\n', '<!DOCTYPE mos SYSTEM "mos.dtd">\n',
                              '<!DOCTYPE mos [<!ENTITY e "x">]>\n']) + doc
        if variant == 'noise':
            doc = gen.xml_noise(rng, doc, p=1.0)
        if variant == 'root-named-like-a-message':
            # the envelope element has another message's name: what decides is the message element INSIDE it
            other = rng.choice([t for t in MESSAGE_TAGS if t != tag])
            doc = B.to_text(B.envelope(7, m, **env), pretty=False)
            doc = '<%s>' % other + doc[len('<mos>'):-len('</mos>')] + '</%s>' % other
        if variant == 'quoted-mos-document':
            # a root that is not called mos (a wrapper, an archive record) whose payload QUOTES another MOS document
            # below the top level: the class is still that of the top-level message element (or none)
            other = rng.choice([t for t in MESSAGE_TAGS if t not in (tag, 'roElementAction')])
            quoted = E('mos', None, E('mosID', 'Q'), E('messageID', '99'), E(other, None, E('roID', 'QUOTED')))
            root_ = B.envelope(7, m, extra=[E('auditTrail', None, quoted)] if rng.random() < 0.6 else ())
            if rng.random() < 0.4:
                m.append(E('mosExternalMetadata', None, E('mosPayload', None, B.clone(quoted))))
            root_.tag = rng.choice(['mosMessage', 'record', 'soapBody'])
            if rng.random() < 0.3:
                # ... or the wrapper holds nothing but the quotation: not a message at all
                root_ = E('archive', None, E('entry', None, quoted))
            doc = B.to_text(root_, pretty=rng.random() < 0.5)
        if variant == 'bare-message-root':
            # the message element without any envelope: a document whose root has no message element in it
            doc = B.to_text(m, pretty=rng.random() < 0.5)
        out.append((variant, doc))
    return out


def garble(rng, doc):
    c = rng.choice(['truncate', 'delete', 'entity', 'unclosed', 'swapclose', 'intact', 'ws-before-decl',
                    'nbsp-after-root', 'ws-around', 'decl'])
    if c == 'ws-before-decl':      # an XML declaration that is not at the very start: not well-formed
        return rng.choice(['\n', '  ', '\t\n ']) + '<?xml version="1.0" encoding="UTF-8"?>\n' + doc
    if c == 'nbsp-after-root':     # U+00A0 is not XML white space: not well-formed
        return doc + rng.choice(['\u00a0', '\u2003\n', '\n\u00a0\n'])
    if c == 'ws-around':           # XML white space around the root element is fine
        return rng.choice(['\n', ' \n\t']) + doc + rng.choice(['\n', '\n\n  '])
    if c == 'decl':
        return '<?xml version="1.0" encoding="UTF-8"?>' + doc + '\n'
    if c == 'truncate':
        return doc[:rng.randint(0, len(doc) - 1)]
    if c == 'delete':
        i = rng.randint(0, len(doc) - 1)
        return doc[:i] + doc[i + rng.randint(1, 3):]
    if c == 'entity':
        i = rng.randint(0, len(doc) - 1)
        return doc[:i] + rng.choice(['&', '&bogus;', '&#xZZ;', '<', '&amp;', '&#65;']) + doc[i:]
    if c == 'unclosed':
        return doc.replace('</mos>', '')
    if c == 'swapclose':
        return doc.replace('</roID>', '</roId>', 1)
    return doc


def expected(doc):
    try:
        root = ET.fromstring(doc)
    except ET.ParseError:
        return 'MosInvalidXML', None
    return classify_doc(root), root


def classify_all_ways(s, doc, variant, cfg, tmpdir, in_claim=True):
    want, root = expected(doc)
    if root is not None:
        # outside the claim: two different top-level message elements / root is a message element
        tops = {c.tag for c in root if c.tag in MESSAGE_TAGS}
        if len(tops) > 1 or root.tag in MESSAGE_TAGS:
            s.ooc['several-or-root-message-element'] += 1
            in_claim = False
    MosFile = s.mt.MosFile
    path = os.path.join(tmpdir, 'd.mos.xml')
    with open(path, 'w', encoding='utf-8') as f:
        f.write(doc)
    ways = [('str', lambda: MosFile.from_string(doc)),
            ('bytes', lambda: MosFile.from_string(doc.encode('utf-8'))),
            ('file', lambda: MosFile.from_file(path))]
    if root is not None and not doc.lstrip().startswith('<?xml'):
        # the same document as declared ISO-8859-1 and UTF-16 bytes (bytes and file sources)
        l1 = ('<?xml version="1.0" encoding="ISO-8859-1"?>\n' + doc).encode('latin-1', 'xmlcharrefreplace')
        u16 = ('<?xml version="1.0" encoding="UTF-16"?>\n' + doc).encode('utf-16')
        p16 = os.path.join(tmpdir, 'd16.mos.xml')
        with open(p16, 'wb') as f:
            f.write(u16)
        import codecs
        u16be = codecs.BOM_UTF16_BE + ('<?xml version="1.0" encoding="UTF-16"?>\n' + doc + '\n').encode('utf-16-be')
        p16be = os.path.join(tmpdir, 'd16be.mos.xml')
        with open(p16be, 'wb') as f:
            f.write(u16be)
        ways += [('bytes-latin1', lambda: MosFile.from_string(l1)),
                 ('bytes-utf16', lambda: MosFile.from_string(u16)),
                 ('file-utf16', lambda: MosFile.from_file(p16)),
                 ('bytes-utf16be-nl', lambda: MosFile.from_string(u16be)),
                 ('file-utf16be-nl', lambda: MosFile.from_file(p16be))]
    from .. import events as EV
    import copy
    from xml.etree import ElementTree as ET
    from ..spec import classify_doc
    outcomes = {}
    for filt in ('default', 'error'):
        for wname, fn in ways:
            own = None
            with W.catch_warnings():
                W.simplefilter(filt)
                EV.STATE['quiet'] = EV.STATE.get('quiet', 0) + 1
                try:
                    o = fn()
                    got = type(o).__name__
                    # the class is that of the element the object acts on (its base_tag): classify that element alone
                    try:
                        bt = o.base_tag
                        if bt is not None and got != 'RunningOrder':
                            alone = ET.Element('mos')
                            alone.append(copy.deepcopy(bt))
                            own = classify_doc(alone)
                    except Exception:
                        own = None
                except Exception as e:
                    got = type(e).__name__
                finally:
                    EV.STATE['quiet'] -= 1
            outcomes[(wname, filt)] = got
            if own is not None and own != got:
                s.custom_violation('class-is-not-the-class-of-the-element-the-object-acts-on',
                                   {'class': got, 'class_of_its_base_tag': own, 'source': wname, 'variant': variant},
                                   {'type': 'classify', 'doc': doc, 'source': wname, 'filter': filt},
                                   msg_kind=got, status='%s/%s' % (wname, filt))
            s.evaluations += 1
            s.note_sig((cfg, wname, filt, want, variant))
            s.hist['classified:' + got] += 1
            if in_claim and got != want:
                s.custom_violation('classification-differs-from-table',
                                   {'expected': want, 'got': got, 'source': wname, 'filter': filt, 'config': cfg,
                                    'variant': variant},
                                   {'type': 'classify', 'doc': doc, 'source': wname, 'filter': filt},
                                   msg_kind=want, status='%s/%s' % (wname, filt))
    # whatever the class is - also for documents outside the table's claim - it is ONE class: the same from every
    # source and under every filter, and the same again after other documents have been classified in between
    if len(set(outcomes.values())) > 1:
        s.custom_violation('classification-differs-between-sources',
                           {'outcomes': {'%s/%s' % k: v for k, v in outcomes.items()}, 'variant': variant},
                           {'type': 'classify', 'doc': doc}, msg_kind=want, status='sources')
    EV.STATE['quiet'] = EV.STATE.get('quiet', 0) + 1
    try:
        with W.catch_warnings():
            W.simplefilter('ignore')
            history = list(HISTORY_DOCS)
            if root is not None:
                # ... among them plain documents of every OTHER message tag this document holds
                for t_ in sorted({c.tag for c in root if c.tag in MESSAGE_TAGS}):
                    history.append(plain_doc_of(t_))
            for other in history:
                try:
                    MosFile.from_string(other)
                except Exception:
                    pass
            try:
                again = type(MosFile.from_string(doc)).__name__
            except Exception as e:
                again = type(e).__name__
    finally:
        EV.STATE['quiet'] -= 1
    s.hist['history_independence_checks'] += 1
    if again != outcomes.get(('str', 'default')):
        s.custom_violation('classification-depends-on-what-was-classified-before',
                           {'first': outcomes.get(('str', 'default')), 'after_other_documents': again, 'variant': variant},
                           {'type': 'classify', 'doc': doc}, msg_kind=want, status='history')
    if len(s.samples) < 3 and s.evaluations % 50 == 0:
        s.samples.append({'doc': doc[:300], 'expected': want, 'variant': variant, 'config': cfg})


_PLAIN = {}


def plain_doc_of(tag):
    if tag not in _PLAIN:
        _PLAIN[tag] = next(d for _, d in tag_docs(random.Random('plain/' + tag), tag, 1))
    return _PLAIN[tag]


HISTORY_DOCS = [
    B.msg_doc('roStorySend', 901, story_ref='A', body=[B.E('p', 'x')], fields=['BODY']),
    B.msg_doc('roDelete', 902),
    B.msg_doc('EAItemDelete', 903, story_ref='A', ids=['i']),
    B.msg_doc('roStoryAppend', 904, carried=[]),
]


def run(s):
    K.hostile_callers(s)
    q = s.tier == 'quick'
    cfg = os.environ.get('VERIF_CFG', 'default')
    s.hist['cfg:%s warnoptions=%s' % (cfg, sys.warnoptions)] += 1
    tmpdir = tempfile.mkdtemp(prefix='verif-c08-')
    try:
        idx = 0
        per_tag = 15 if q else 480
        for tag in MESSAGE_TAGS:
            rng = s.rng('tag', tag)
            for variant, doc in tag_docs(rng, tag, per_tag):
                idx += 1
                if s.mine(idx):
                    classify_all_ways(s, doc, variant, cfg, tmpdir)
        for op in OPS:
            for tsh in TSHAPES:
                for ssh in SSHAPES:
                    for extra in ((False,) if q else (False, True)):
                        idx += 1
                        if s.mine(idx):
                            classify_all_ways(s, ea_doc(op, tsh, ssh, pretty=(idx % 2 == 0), extra_first=extra),
                                              'ea:%s/%s/%s' % (op, tsh, ssh), cfg, tmpdir)
        rng = s.rng('misc')
        pool = gen.text_pool('hostile')
        n_misc = 240 if q else 60000
        base_docs = [d for t in MESSAGE_TAGS for _, d in tag_docs(rng, t, 2)]
        for k in range(n_misc):
            idx += 1
            r = rng.random()
            if r < 0.25:
                doc = B.to_text(gen.rich_blob(rng, 3, pool, rng.choice(['mos', 'html', 'x', 'roCreate'])))
                variant = 'non-mos'
            elif r < 0.5:
                # sibling order permutation
                root = ET.fromstring(rng.choice(base_docs))
                kids = list(root)
                rng.shuffle(kids)
                for c in list(root):
                    root.remove(c)
                for c in kids:
                    root.append(c)
                doc = ET.tostring(root, encoding='unicode')
                variant = 'permuted-siblings'
            else:
                doc = garble(rng, rng.choice(base_docs))
                variant = 'garbled'
            if s.mine(idx):
                classify_all_ways(s, doc, variant, cfg, tmpdir)
        # documents holding TWO message elements (different tags, or the same tag twice with different content):
        # which element decides is not claimed - but the answer is one class, the same from every source and
        # after any history, and it is the class of the element the returned object acts on
        n_two = 60 if q else 6000
        for k in range(n_two):
            idx += 1
            if not s.mine(idx):
                continue
            ra, rb = ET.fromstring(rng.choice(base_docs)), ET.fromstring(rng.choice(base_docs))
            if rng.random() < 0.4:
                op1, op2 = rng.sample(OPS, 2)
                ra = ET.fromstring(ea_doc(op1, rng.choice(TSHAPES), rng.choice(SSHAPES)))
                rb = ET.fromstring(ea_doc(op2, rng.choice(TSHAPES), rng.choice(SSHAPES)))
            extra = [c for c in rb if c.tag in MESSAGE_TAGS]
            for c in extra:
                ra.insert(rng.randint(0, len(ra)), c)
            classify_all_ways(s, ET.tostring(ra, encoding='unicode'), 'two-message-elements', cfg, tmpdir, in_claim=False)
        # fixtures of the repository as seeds
        fixdir = os.path.join(os.environ.get('VERIF_REPO', '/repo'), 'tests', 'mock_mos')
        if os.path.isdir(fixdir):
            for fn in sorted(os.listdir(fixdir)):
                idx += 1
                if s.mine(idx) and fn.endswith('.xml'):
                    classify_all_ways(s, open(os.path.join(fixdir, fn), encoding='utf-8').read(), 'fixture', cfg, tmpdir)
    finally:
        for f in os.listdir(tmpdir):
            os.unlink(os.path.join(tmpdir, f))
        os.rmdir(tmpdir)


def replay(s, data):
    w = data['witness']
    tmpdir = tempfile.mkdtemp(prefix='verif-c08-')
    try:
        classify_all_ways(s, w['doc'], 'replay', os.environ.get('VERIF_CFG', 'default'), tmpdir)
    finally:
        for f in os.listdir(tmpdir):
            os.unlink(os.path.join(tmpdir, f))
        os.rmdir(tmpdir)


def gates(agg, tier):
    r = []
    for cfg in ('default', 'Werror'):
        for cls in ALL_CLASSES + ['UnknownMosFileType', 'MosInvalidXML']:
            K.need(agg, r, K.sig_has(agg, "('%s'" % cfg, "'%s'" % cls),
                   'outcome %s never expected under configuration %s' % (cls, cfg))
    K.need(agg, r, any('Werror' in k and "'error'" in k for k in agg['hist'] if k.startswith('cfg:')) or
           any(k.startswith('Werror|cfg:') and 'error' in k for k in agg['hist']),
           'the -W error interpreter configuration did not take effect')
    return r
