"""C18 - file, string, bytes and S3 sources are interchangeable; readers are faithful."""
import codecs
import os
import pathlib
import shutil
import tempfile

from .. import build as B
from .. import events as EV
from .. import fakes3
from .. import gen
from ..canon import Abs
from . import common as K

META = {
    'rule': ('Documents of every kind with Unicode / markup-significant content, encoded as UTF-8 (plain, with XML '
             'declaration, with BOM), declared ISO-8859-1 and UTF-16: class and str() must be identical from '
             'from_file(str path), from_file(Path), from_string(bytes), from_s3 (fake object holding the bytes) and - '
             'for undeclared text - from_string(str). Collections from the three constructors over the same contents '
             'must merge to the same text. Every MosReader: message_id / ro_id / mos_type equal those of the object it '
             'restores; two restores are distinct objects with equal text, equal to the original parse. Bucket '
             'listings: 0-40 keys with / without the suffix, suffix mid-key, prefixes empty / None / partial / matching '
             'nothing, page sizes 1-7: get_mos_files must return exactly the keys under the prefix ending with the '
             'suffix, in listing order; the lazy S3 handle creates client and resource at most once and only on first '
             'use. Signature = (part, kind or listing shape, encoding / pages / prefix class, outcome).'),
    'workers': {'quick': 8, 'thorough': 16},
    'watchdog': {'quick': 600, 'thorough': 3600},
    'assumptions': ['real S3 cannot be reached; the claim is about mosromgr\'s side of the boto3 boundary',
                    'pages without Contents in the middle of a listing are outside the claim'],
}

ENCODINGS = ('utf8', 'utf8-decl', 'utf8-bom', 'latin1-decl', 'utf16', 'utf16be-nl', 'utf8-nl')


def encode(doc, enc):
    if enc == 'utf8':
        return doc.encode('utf-8')
    if enc == 'utf8-decl':
        return ('<?xml version="1.0" encoding="UTF-8"?>\n' + doc).encode('utf-8')
    if enc == 'utf8-bom':
        return codecs.BOM_UTF8 + doc.encode('utf-8')
    if enc == 'latin1-decl':
        return ('<?xml version="1.0" encoding="ISO-8859-1"?>\n' + doc).encode('latin-1', 'xmlcharrefreplace')
    if enc == 'utf16':
        return ('<?xml version="1.0" encoding="UTF-16"?>\n' + doc).encode('utf-16')
    if enc == 'utf16be-nl':      # big-endian with BOM, ending in a line feed
        return codecs.BOM_UTF16_BE + ('<?xml version="1.0" encoding="UTF-16"?>\n' + doc + '\n').encode('utf-16-be')
    if enc == 'utf8-nl':
        return (doc + '\n\n').encode('utf-8')
    raise ValueError(enc)


def big_broken(rng, i):
    """A large message (well over one parser buffer) that is a perfect MOS message up to its last bytes and
    not well-formed after that: truncated, trailing junk, a mismatched tag, a bare ampersand near the end."""
    doc = B.msg_doc('roStoryAppend', 50 + i % 40, carried=[gen.simple_story('BIG%d.%d' % (i, k), 3) for k in range(250)])
    how = rng.choice(['truncated', 'junk', 'mismatch', 'ampersand'])
    if how == 'truncated':
        return doc[:-rng.randint(3, 40)]
    if how == 'junk':
        return doc + rng.choice(['trailing', '<more/>', '</mos>'])
    if how == 'mismatch':
        return doc[:-len('</roStoryAppend></mos>')] + '</roStoryInsert></mos>'
    k = doc.rfind('<itemSlug>')
    return doc[:k + 10] + 'AT&T ' + doc[k + 10:]


def same_name_other_directory(s, i, tmpdir):
    """A relative file name means the file in the CURRENT directory: two directories hold files of the same
    names and different content; each is read (twice) after changing into its directory."""
    rng = s.rng('chdir', i)
    pool = gen.text_pool('plain')
    MosFile = s.mt.MosFile
    docs = {}
    for d_ in ('monday', 'tuesday'):
        os.makedirs(os.path.join(tmpdir, d_), exist_ok=True)
        ro_txt = gen.rand_ro(rng, n_stories=rng.randint(1, 3), pool=pool, message_id=1)
        msg = gen.rand_message(rng, Abs(ro_txt), rng.choice(B.ALL_KINDS), 7, gen.Ids('%s%d.' % (d_[0], i)), pool=pool)
        docs[d_] = {'ro.mos.xml': ro_txt, 'msg.mos.xml': msg}
        for nm, txt in docs[d_].items():
            with open(os.path.join(tmpdir, d_, nm), 'w', encoding='utf-8') as f:
                f.write(txt)
    cwd = os.getcwd()
    try:
        for d_ in ('monday', 'tuesday', 'monday'):
            os.chdir(os.path.join(tmpdir, d_))
            for nm, txt in docs[d_].items():
                for path in (nm, os.path.join('.', nm), pathlib.Path(nm)):
                    try:
                        got = str(MosFile.from_file(path))
                    except Exception as e:
                        got = 'EXC:' + type(e).__name__
                    try:
                        want = str(MosFile.from_string(txt))
                    except Exception as e:
                        want = 'EXC:' + type(e).__name__
                    s.evaluations += 1
                    s.note_sig(('relative-name', d_, nm, got == want))
                    if got != want:
                        s.custom_violation('sources-disagree', {'what': 'a relative file name read after changing directory',
                                                                'directory': d_, 'name': str(path)},
                                           {'type': 'chdir', 'i': i}, status='relative-name')
        s.hist['relative_names_after_chdir'] += 1
    finally:
        os.chdir(cwd)
    EV.drain()


def sources(s, i, tmpdir):
    rng = s.rng('doc', i)
    pool = gen.text_pool('hostile')
    MosFile = s.mt.MosFile
    state = Abs(gen.rand_ro(rng, n_stories=3, pool=pool))
    kind = rng.choice(B.ALL_KINDS + ('roCreate',))
    if kind == 'roCreate':
        doc = gen.rand_ro(rng, pool=pool)
    else:
        doc = gen.rand_message(rng, state, kind, rng.randint(1, 99999), gen.Ids('d%d.' % i), pool=pool)
    r = rng.random()
    if r < 0.06:
        # well-formed but not a message the library knows: every source must refuse it the same way
        kind, doc = 'unclassifiable', rng.choice(UNCLASSIFIABLE)
    elif r < 0.09:
        kind, doc = 'malformed', rng.choice(['<mos><roCreate>', 'not xml', ''])
    elif r < 0.12:
        kind, doc = 'malformed', big_broken(rng, i)
    enc = ENCODINGS[i % len(ENCODINGS)]
    judge_sources(s, doc, enc, kind, tmpdir, i)


UNCLASSIFIABLE = [
    '<mos><mosID>M</mosID><ncsID>N</ncsID><messageID>7</messageID><heartbeat><time>2020-01-01T00:00:00</time></heartbeat></mos>',
    '<mos><mosID>M</mosID><messageID>8</messageID><roElementAction operation="MOVE"><roID>RO</roID>'
    '<element_target><storyID>A</storyID></element_target><element_source><itemID>i</itemID></element_source>'
    '</roElementAction></mos>',
    '<mos><mosID>M</mosID><messageID>9</messageID><roListAll/></mos>',
]


def judge_sources(s, doc, enc, kind, tmpdir, i=0):
    MosFile = s.mt.MosFile
    data = encode(doc, enc)
    path = os.path.join(tmpdir, 'doc%d.mos.xml' % (i % 7))
    with open(path, 'wb') as f:
        f.write(data)
    f3 = K.ensure_fake_s3()
    f3.BUCKETS['srcbucket'] = [('some/key.mos.xml', data)]
    ways = {
        'file-str': lambda: MosFile.from_file(path),
        'file-Path': lambda: MosFile.from_file(pathlib.Path(path)),
        'bytes': lambda: MosFile.from_string(data),
        's3': lambda: MosFile.from_s3(bucket_name='srcbucket', mos_file_key='some/key.mos.xml'),
    }
    if enc == 'utf8':
        ways['str'] = lambda: MosFile.from_string(doc)
        if not doc.lstrip().startswith('<?xml') and '<!DOCTYPE' not in doc:
            decl = '<?xml version="1.0" encoding="ISO-8859-1"?>\n' + doc
            ways['str-declared-latin1'] = lambda: MosFile.from_string(decl)
    import mosromgr.moscollection as mcmod
    MosReader = mcmod.MosReader
    rways = {
        'file': lambda: MosReader.from_file(path),
        'bytes': lambda: MosReader.from_string(data),
        's3': lambda: MosReader.from_s3(bucket_name='srcbucket', mos_file_key='some/key.mos.xml'),
    }
    res, rres = {}, {}
    EV.STATE['quiet'] = EV.STATE.get('quiet', 0) + 1
    try:
        for name, fn in ways.items():
            try:
                o = fn()
                res[name] = (type(o).__name__, str(o))
            except Exception as e:
                res[name] = ('EXC:' + type(e).__name__, '')      # the class of the refusal; its wording may name a line
        # the collection readers over the same content: same refusal, or same (class, IDs, restored text)
        for name, fn in rways.items():
            try:
                mr = fn()
                rres[name] = ('None',) if mr is None else (mr.mos_type.__name__, mr.message_id, mr.ro_id, str(mr.mos_object))
            except Exception as e:
                rres[name] = ('EXC:' + type(e).__name__,)
    finally:
        EV.STATE['quiet'] -= 1
    s.evaluations += 1
    first = next(iter(res.values()))
    want_r = (first[0],) if first[0].startswith('EXC:') else None
    if len(set(rres.values())) != 1 or (want_r is not None and next(iter(rres.values())) != want_r) or \
            (want_r is None and next(iter(rres.values()))[0] != first[0]):
        s.custom_violation('readers-disagree-across-sources', {'kind': kind, 'encoding': enc, 'library_class': first[0],
                                                               'readers': {k: v[0] for k, v in rres.items()}},
                           {'type': 'sources', 'doc': doc, 'encoding': enc}, msg_kind=kind, status=enc)
    s.hist['reader-sources:' + next(iter(rres.values()))[0][:4]] += 1
    vals = set(res.values())
    s.note_sig(('sources', kind, enc, len(vals) == 1, next(iter(res.values()))[0]))
    s.hist['sources:' + enc] += 1
    if len(vals) != 1:
        s.custom_violation('sources-disagree', {'kind': kind, 'encoding': enc,
                                                'classes': {k: v[0] for k, v in res.items()}},
                           {'type': 'sources', 'doc': doc, 'encoding': enc}, msg_kind=kind, status=enc)
    if len(s.samples) < 2:
        s.samples.append({'part': 'sources', 'kind': kind, 'encoding': enc,
                          'classes': {k: v[0] for k, v in res.items()}})


def readers(s, i, tmpdir):
    rng = s.rng('readers', i)
    pool = gen.text_pool('hostile')
    ro_txt = gen.rand_ro(rng, n_stories=rng.randint(1, 4), pool=pool, message_id=1)
    state = Abs(ro_txt)
    ids = gen.Ids('r%d.' % i)
    docs = [ro_txt]
    for k in range(rng.randint(1, 8)):
        kind = K.weighted_kinds(rng, K.kind_weights(1, 1, 0.5, 0.05))
        docs.append(gen.rand_message(rng, state, kind, 10 + 3 * k, ids, pool=pool))
    if rng.random() < 0.12:
        # one document the library cannot classify: all three constructors refuse the list the same way
        docs.insert(rng.randint(1, len(docs)), rng.choice(UNCLASSIFIABLE))
    elif rng.random() < 0.1:
        # one large document that stops being well-formed near its end: refused by every constructor alike
        docs.insert(rng.randint(1, len(docs)), big_broken(rng, i))
        s.hist['reader_lists_with_a_large_broken_document'] += 1
    judge_readers(s, docs, tmpdir, rng)


def judge_readers(s, docs, tmpdir, rng):
    texts = {}
    if rng.random() < 0.3:
        # strings that declare an encoding they are not in (a str has no encoding): readers must restore the same text
        docs = [('<?xml version="1.0" encoding="ISO-8859-1"?>\n' + d) if not d.lstrip().startswith('<?xml') and
                '<!DOCTYPE' not in d else d for d in docs]
        hows = ('strings',)
    else:
        hows = ('strings', 'files', 's3', 'files-mixed')
    for how in hows:
        shuffled = list(docs)
        rng.shuffle(shuffled)
        mc, cerr = K.make_collection(s, shuffled, how, True, tmpdir)
        if mc is None:
            texts[how] = 'EXC:' + type(cerr).__name__
            continue
        EV.STATE['quiet'] = EV.STATE.get('quiet', 0) + 1
        try:
            for mr in mc.mos_readers:
                try:
                    a = mr.mos_object
                    b = mr.mos_object            # "restores a fresh, equal object every time"
                    c = mr.mos_object
                    ok = (a is not b and b is not c and str(a) == str(b) == str(c) and type(a) is mr.mos_type
                          and a.message_id == mr.message_id and a.ro_id == mr.ro_id and type(b) is type(a))
                    orig = [d for d in docs if K.message_id_of(d) == mr.message_id]
                    if orig:
                        ok = ok and str(s.mt.MosFile.from_string(orig[0])) == str(a)
                except Exception as e:
                    a, ok = e, False
                s.evaluations += 1
                s.note_sig(('reader', how, mr.mos_type.__name__, ok))
                if not ok:
                    s.custom_violation('reader-not-faithful', {'how': how, 'mos_type': mr.mos_type.__name__,
                                                               'restored': type(a).__name__},
                                       {'type': 'readers', 'docs': docs, 'how': how}, msg_kind=mr.mos_type.__name__,
                                       status=how)
        finally:
            EV.STATE['quiet'] -= 1
        merr, wn = K.merge_collection(s, mc, False)
        EV.drain()
        texts[how] = str(mc) if merr is None else 'EXC:' + type(merr).__name__
    s.evaluations += 1
    s.note_sig(('constructors-agree', len(set(texts.values())) == 1, len(docs)))
    if len(set(texts.values())) != 1:
        s.custom_violation('constructors-disagree', {'outcomes': {k: v[:40] for k, v in texts.items()}},
                           {'type': 'readers', 'docs': docs}, status='merge')


def empty_lists(s, tmpdir):
    """Nothing to read: every constructor refuses the same way."""
    import mosromgr.moscollection as mcmod
    f3 = K.ensure_fake_s3()
    f3.BUCKETS['emptyb'] = [('other/x.mos.xml', b'<mos/>'), ('pre/fix/readme.txt', b'x')]
    got = {}
    EV.STATE['quiet'] = EV.STATE.get('quiet', 0) + 1
    try:
        for inc in (False, True):
            for name, fn in (('strings', lambda: mcmod.MosCollection.from_strings([], allow_incomplete=inc)),
                             ('files', lambda: mcmod.MosCollection.from_files([], allow_incomplete=inc)),
                             ('s3', lambda: mcmod.MosCollection.from_s3(bucket_name='emptyb', prefix='pre/fix/', allow_incomplete=inc))):
                try:
                    fn()
                    got[(name, inc)] = 'accepted'
                except Exception as e:
                    got[(name, inc)] = type(e).__name__
    finally:
        EV.STATE['quiet'] -= 1
    s.evaluations += 1
    s.note_sig(('empty-lists', tuple(sorted(set(got.values())))))
    if set(got.values()) != {'InvalidMosCollection'}:
        s.custom_violation('constructors-disagree', {'outcomes': {'%s/%s' % k: v for k, v in got.items()}, 'list': 'empty'},
                           {'type': 'empty-lists'}, status='empty')


def listings(s, i):
    import mosromgr.utils.s3 as s3mod
    rng = s.rng('listing', i)
    f3 = K.ensure_fake_s3()
    bucket = 'lst'
    n = rng.choice([0, 0, 1, 2, 3, 5, 8, 13, 21, 40])
    big = i % 25 == 7
    if big:
        n = rng.choice([999, 1000, 1001, 2500])       # the service pages at 1000 keys
    # a suffix is literal text, whatever characters it holds
    suffix = rng.choice(['.mos.xml', '.mos.xml', '.xml', 'x', '[1].mos.xml', '?.mos.xml', '*.xml', '.mos.xm[l]'])
    plain = suffix.replace('[1]', '1').replace('?', 'q').replace('*', 'star').replace('[l]', 'l')
    prefixes = ['', 'a/', 'a/b', 'zz', 'a/b/']
    keys = []
    for k in range(n):
        stem = rng.choice(['a/', 'a/b/', 'a/bb', 'c/', '']) + rng.choice(['f%d', 'f.%d.v2', '22.31.%d-x', 'f+%d', 'f%%2F%d', 'f %d']) % k
        ending = rng.choice([suffix, suffix, '.txt', suffix + '.bak', '', suffix.upper(), suffix + suffix, '.mos' + suffix, plain])
        if rng.random() < 0.1:
            stem = stem + suffix + 'mid'
        keys.append(stem + ending)
    rng.shuffle(keys)
    judge_listing(s, keys, (prefixes[:2] if big else prefixes) + [None], suffix,
                  1000 if big else rng.randint(1, 7), rng.random() < 0.5)


def judge_listing(s, keys, prefixes, suffix, page_size, default_kw=False):
    import mosromgr.utils.s3 as s3mod
    f3 = K.ensure_fake_s3()
    bucket = 'lst'
    n = len(keys)
    f3.BUCKETS[bucket] = [(k, b'<mos/>') for k in keys]
    f3.CONFIG['page_size'] = page_size
    for prefix in prefixes:
        # fresh lazy handle: at most one client, no resource, only on first use
        s3mod.s3._client = None
        s3mod.s3._resource = None
        c0 = dict(f3.CALLS)
        kw = {} if suffix == '.mos.xml' and default_kw else {'suffix': suffix}
        try:
            got = s3mod.get_mos_files(bucket, prefix, **kw)
            got2 = s3mod.get_mos_files(bucket, prefix, **kw)
        except Exception as e:
            got = got2 = 'EXC:' + type(e).__name__
        want = [k for k in keys if k.startswith(prefix or '') and k.endswith(suffix)]
        made_clients = f3.CALLS['client'] - c0['client']
        made_resources = f3.CALLS['resource'] - c0['resource']
        pages = (f3.CALLS['pages'] - c0['pages']) // 2
        s.evaluations += 1
        s.note_sig(('listing', min(n, 9), min(pages, 8), 'none' if prefix is None else
                    ('empty' if prefix == '' else 'set'), len(want) > 0, suffix))
        s.hist['listings'] += 1
        s.hist['listing_pages'] += pages
        wit = {'type': 'listing', 'keys': keys, 'prefix': prefix, 'suffix': suffix,
               'page_size': f3.CONFIG['page_size']}
        if got != want or got2 != want:
            s.custom_violation('listing-incomplete-or-wrong', {'got': got if isinstance(got, str) else len(got),
                                                               'want': len(want), 'pages': pages,
                                                               'prefix': prefix, 'suffix': suffix}, wit,
                               status='pages=%d' % min(pages, 3))
        if made_clients != 1 or made_resources != 0:
            s.custom_violation('lazy-s3-handle-created-wrong-number-of-clients',
                               {'clients': made_clients, 'resources': made_resources}, wit, status='lazy')
    if len(s.samples) < 4 and n > 3:
        s.samples.append({'part': 'listing', 'keys': keys[:8], 'page_size': f3.CONFIG['page_size'],
                          'suffix': suffix})


def run(s):
    K.hostile_callers(s)
    q = s.tier == 'quick'
    tmpdir = tempfile.mkdtemp(prefix='verif-c18-')
    try:
        for i in range(700 if q else 40000):
            if s.mine(i):
                sources(s, i, tmpdir)
        for i in range(100 if q else 5000):
            if s.mine(i):
                readers(s, i, tmpdir)
        if s.mine(0):
            empty_lists(s, tmpdir)
        for i in range(24 if q else 1500):
            if s.mine(i):
                same_name_other_directory(s, i, tmpdir)
        for i in range(300 if q else 15000):
            if s.mine(i):
                listings(s, i)
    finally:
        shutil.rmtree(tmpdir, ignore_errors=True)


def replay(s, data):
    w = data['witness']
    tmpdir = tempfile.mkdtemp(prefix='verif-c18-')
    try:
        if w.get('type') == 'sources':
            judge_sources(s, w['doc'], w['encoding'], 'replay', tmpdir)
        elif w.get('type') == 'readers':
            judge_readers(s, w['docs'], tmpdir, s.rng('replay'))
        elif w.get('type') == 'empty-lists':
            empty_lists(s, tmpdir)
        elif w.get('type') == 'listing':
            judge_listing(s, w['keys'], [w['prefix']], w['suffix'], w['page_size'])
        elif w.get('type') == 'chdir':
            same_name_other_directory(s, w['i'], tmpdir)
        else:
            s.notes.append('unknown witness type')
    finally:
        shutil.rmtree(tmpdir, ignore_errors=True)


def gates(agg, tier):
    r = []
    for enc in ENCODINGS:
        K.need(agg, r, agg['hist'].get('sources:' + enc, 0) > 0, 'encoding %s never used' % enc)
    K.need(agg, r, K.sig_has(agg, "'reader', 's3'"), 'no reader from the fake S3 observed')
    K.need(agg, r, K.sig_has(agg, "'reader', 'files'"), 'no reader from files observed')
    K.need(agg, r, agg['hist'].get('listing_pages', 0) > agg['hist'].get('listings', 0),
           'no multi-page listing observed')
    return r
