"""C03 - a merge changes only what the message names (no collateral edits)."""
from .. import build as B
from .. import gen
from ..canon import Abs
from . import common as K

META = {
    'rule': ('For rich random running orders (nested metadata, attributes, mixed text, paragraphs, item IDs repeated '
             'across stories, several mosExternalMetadata blocks): every message kind x the full product of reference '
             'shapes {existing, unknown, blank, missing tag} of each reference slot; plus roMetadataReplace / roReplace '
             '/ roStoryAppend / roReadyToAir cases; plus miss-heavy random histories. The oracle compares canonical '
             'forms of everything the message does not name (envelope, metadata subsequence, unnamed stories and '
             'items, non-item content of the addressed story) before and after. Signature = (kind, relation status, '
             'reference-shape vector, position class, layout, sizes, outcome); non-trivial when the library changed '
             'state, raised or warned.'),
    'exhaustive_part': 'reference-shape product per kind is complete for each sampled state; states are sampled',
    'workers': {'quick': 12, 'thorough': 16},
    'watchdog': {'quick': 600, 'thorough': 3600},
    'assumptions': ['roMetadataReplace with two carried elements of the same identity is outside the claim'],
}


def product_on_state(s, sidx, text='hostile'):
    rng = s.rng('state', sidx)
    pool = gen.text_pool(text)
    ro_txt = gen.rand_ro(rng, n_stories=rng.randint(2, 6), pool=pool, rich=True)
    state = Abs(ro_txt)
    ids = gen.Ids('P%d.' % sidx)
    n = 0
    for kind, shapes, kw in gen.shape_product(rng, state, ids, pool):
        n += 1
        K.run_case(s, ro_txt, kind, kw, mid=50 + n % 7, pretty=rng.random() < 0.5,
                   ctx={'state': sidx, 'shapes': shapes})
    for kind in ('roMetadataReplace', 'roMetadataReplace', 'roMetadataReplace', 'roReplace',
                 'roStoryAppend', 'roReadyToAir'):
        msg = gen.rand_message(rng, state, kind, 90, ids, pool=pool)
        s.step(s.load(ro_txt), msg, {'state': sidx})


def run(s):
    K.hostile_callers(s)
    K.suite_workload(s)
    K.fixtures_workload(s)
    K.collision_cases(s)
    K.large_cases(s, 24 if s.tier == 'quick' else 600, 'both')
    K.pair_histories(s)
    K.resend_after_reorder(s, 4 if s.tier == 'quick' else 5)
    K.story_grid(s, 4, layouts=('everywhere',), pretties=(True,), kmax=2, full=False, names=K.HOSTILE_NAMES)
    K.story_grid(s, 4, layouts=('everywhere',), pretties=(True,), kmax=2, full=False, names=K.HOSTILE_NAMES_B)
    K.item_grid(s, 4, pretties=(False,), kmax=2, full=False, inters=(True,), item_names=K.HOSTILE_NAMES)
    K.item_grid(s, 4, pretties=(False,), kmax=2, full=False, inters=(True,), item_names=K.HOSTILE_NAMES_B)
    K.story_grid(s, 3, layouts=('before',), pretties=(False,), kmax=2, full=False, names=K.LONG_NAMES)
    K.idless_cases(s)
    K.item_grid(s, 3, pretties=(False,), kmax=2, full=False, inters=(False,), item_names=K.LONG_NAMES)
    n_states, n_hist = (24, 200) if s.tier == 'quick' else (600, 5000)
    for i in range(n_states):
        if s.mine(i):
            product_on_state(s, i)
    K.fuzz(s, n_hist, K.kind_weights(story=1.0, item=1.0, other=0.6), steps=(5, 25), text='hostile',
           shape_weights=(0.5, 0.2, 0.2, 0.1), selfref=0.1)


replay = K.replay_transition


def gates(agg, tier):
    r = []
    K.kinds_seen(agg, B.ALL_KINDS, r)
    for shape in ('blank', 'unknown', 'absent', 'existing'):
        K.need(agg, r, K.sig_has(agg, "'%s'" % shape), 'reference shape %s never observed' % shape)
    K.need(agg, r, K.sig_has(agg, "'shared-ids'"), 'no item message on a state where another story reuses the item IDs')
    K.need(agg, r, K.sig_has(agg, "'roMetadataReplace'", "'replace'"), 'no roMetadataReplace replacing an existing element')
    K.need(agg, r, K.sig_has(agg, "'roMetadataReplace'", "'add'"), 'no roMetadataReplace adding a new element')
    return r
