"""C02 - item order inside the addressed story follows the MOS protocol."""
from .. import build as B
from . import common as K

META = {
    'rule': ('Bounded-exhaustive grid on the item subsequence of the addressed story: item count n<=N, every ordered '
             'k-tuple (k<=3) of sources, every reference item (each item, blank, unknown), x {adjacent items, '
             'paragraphs interleaved} x addressed story first/middle/last x {compact, pretty}; the other stories '
             'deliberately reuse the same item IDs. Then random histories (item-heavy). Signature = (kind, status, '
             'reference shapes, relative-position class, list lengths, adjacent/interleaved, shared-ids, item '
             'count, outcome); non-trivial when the library changed state, raised or warned.'),
    'exhaustive_part': 'item-level grid up to the stated bounds (quick n<=4, thorough n<=5); fuzz part is sampled',
    'workers': {'quick': 12, 'thorough': 16},
    'watchdog': {'quick': 600, 'thorough': 3600},
    'assumptions': ['stories with duplicate item IDs are outside the order claim (conservation still checked)'],
}


def run(s):
    K.hostile_callers(s)
    K.suite_workload(s)
    K.fixtures_workload(s)
    K.collision_cases(s, 'item')
    K.recreate_cases(s, 'item')
    K.huge_cases(s, 2 if s.tier == 'quick' else 12)
    K.large_cases(s, 24 if s.tier == 'quick' else 600, 'item')
    K.pair_histories(s)
    K.reuse_objects(s, B.ITEM_KINDS, 110 if s.tier == 'quick' else 6000)
    K.item_grid(s, 3, pretties=(True,), kmax=2, full=False, inters=(False,), item_names=K.LONG_NAMES)
    K.item_grid(s, 4, pretties=(False,), kmax=2, full=False, inters=(False,), item_names=K.HOSTILE_NAMES_C)
    K.item_grid(s, 4, pretties=(False,), kmax=2, full=False, inters=(False,), item_names=K.HOSTILE_NAMES_D)
    if s.tier == 'quick':
        K.item_grid(s, 4, pretties=(False,), kmax=3, full=False)
        K.item_grid(s, 4, pretties=(True,), kmax=2, full=False, inters=(False,), item_names=K.HOSTILE_NAMES)
        K.item_grid(s, 4, pretties=(True,), kmax=2, full=False, inters=(False,), item_names=K.HOSTILE_NAMES_B)
        K.fuzz(s, 240, K.kind_weights(story=0.15, item=1.0, other=0.15), steps=(5, 25), direct=0.15)
    else:
        K.item_grid(s, 5, kmax=3, full=True)
        K.item_grid(s, 6, kmax=2, full=False, item_names=K.HOSTILE_NAMES)
        K.item_grid(s, 4, kmax=2, full=False, item_names=K.HOSTILE_NAMES_B)
        K.fuzz(s, 15000, K.kind_weights(story=0.2, item=1.0, other=0.15), steps=(5, 40), direct=0.15)


replay = K.replay_transition


def gates(agg, tier):
    r = []
    K.kinds_seen(agg, B.ITEM_KINDS, r)
    K.need(agg, r, K.sig_has(agg, "'roItemMoveMultiple', 'ok'", "'before'"), 'no forward item move observed')
    K.need(agg, r, K.sig_has(agg, "'adj'"), 'no adjacent-item layout observed')
    K.need(agg, r, K.sig_has(agg, "'inter'"), 'no interleaved-paragraph layout observed')
    K.need(agg, r, K.sig_has(agg, "'shared-ids'"), 'no state where another story reuses the item IDs')
    K.need(agg, r, K.sig_has(agg, "'EAItemDelete', 'ok'", ", 2, 0)"), 'no multi-ID EAItemDelete observed')
    return r
