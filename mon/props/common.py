"""Shared transition workloads (grids and fuzz histories) and replay."""
from xml.etree import ElementTree as ET

from .. import build as B
from .. import gen
from ..canon import Abs

LAYOUTS = ('none', 'before', 'between', 'after', 'everywhere')
STORY_NAMES = ['A', 'B', 'C', 'D', 'E', 'F']


def run_case(s, ro_txt, kind, kw, mid=2, pretty=False, ctx=None, noise_rng=None):
    msg = B.msg_doc(kind, mid, pretty=pretty, **kw)
    if noise_rng is not None:
        # hostile-ID grids: comments inside ID texts, in the message and in the running order
        msg = gen.split_ids(noise_rng, msg)
        ro_txt = gen.split_ids(noise_rng, ro_txt, p=0.3)
    ro = s.load(ro_txt)
    r = s.step(ro, msg, ctx)
    _CASES[0] += 1
    if _CASES[0] % 6 == 0:
        # the same case again in a host that turns deprecation / bytes warnings into errors (pytest -W error,
        # PYTHONWARNINGS=error::DeprecationWarning): a merge does nothing that is deprecated, so nothing changes
        cat = DeprecationWarning if _CASES[0] % 12 == 0 else PendingDeprecationWarning
        s.step(s.load(ro_txt), msg, dict(ctx or {}, host_filter='error::' + cat.__name__), error_on=cat)
        s.hist['cases_repeated_under_error::' + cat.__name__] += 1
    return r


_CASES = [0]
HOSTILE_NAMES = ['NEWS,AM,S1', '5" x 7\' card', 'S1', 's1', 'S1 ', 'S10', ' S1', 'S01', 'B"][itemID=\'B\'][itemID="B',
                 '{6B29FC40-CA47}']
# a second ordering of hostile names for the quick grids (which only use the first few): IDs that differ
# in surrounding white space, case and zero padding only
HOSTILE_NAMES_B = ['S1', 'S1 ', ' S1', 'S01', 's1', 'S10']
# numeric IDs that are equal as numbers and different as IDs; digits that are not ASCII digits
HOSTILE_NAMES_C = ['7', '07', '+7', '70', '\u00b2', '\u2460\u2461']
# IDs that differ only in characters that do not show (format characters: soft hyphen, zero-width joiners,
# direction marks) or in look-alike letters: different IDs all the same
HOSTILE_NAMES_D = ['coop', 'co\u00adop', 'Mo\u200cn', 'Mon', 'a\u200db', 'ab']
INVISIBLE_UNKNOWN = 'co\u200bop'
NUMERIC_UNKNOWN = '007'
HOSTILE_UNKNOWN = 'SPORT,AM,S1'       # not in any running order, but its last component is
# IDs longer than the protocol's nominal 128 characters that differ only after that length
_LONG = 'OPENMEDIA/2020-01-01/' + 'x' * 107
LONG_NAMES = [_LONG + 'A', _LONG + 'C', _LONG + 'D', _LONG + 'E']
LONG_UNKNOWN = _LONG + 'B'
assert len(_LONG) == 128


def _unknown_for(names):
    if names is LONG_NAMES:
        return LONG_UNKNOWN
    if names is HOSTILE_NAMES_D:
        return INVISIBLE_UNKNOWN
    if names is HOSTILE_NAMES_C:
        return NUMERIC_UNKNOWN
    return HOSTILE_UNKNOWN


def story_grid(s, nmax, layouts=LAYOUTS, pretties=(False, True), kmax=3, full=True, timed=(True,),
               names=None):
    idx = 0
    names = names or STORY_NAMES
    for n in range(0, nmax + 1):
        S = names[:n]
        for layout in layouts:
            for pretty in pretties:
                for tm in timed:
                    ro_txt = gen.grid_ro(S, layout, pretty, timed=tm)
                    for kind, kw in gen.story_grid_messages(S, kmax=kmax, full=full,
                                                            unk='ZZ-unknown' if names is STORY_NAMES else _unknown_for(names)):
                        idx += 1
                        if not s.mine(idx):
                            continue
                        run_case(s, ro_txt, kind, kw, pretty=pretty,
                                 noise_rng=s.rng('split', idx) if (names is not STORY_NAMES and idx % 2) else None)
    s.hist['grid_cases_total'] = idx


def item_grid(s, nmax, pretties=(False, True), kmax=3, full=True, inters=(False, True), item_names=None):
    idx = 0
    for n in range(0, nmax + 1):
        I = (item_names or ['i%d' % k for k in range(n)])[:n]
        for inter in inters:
            for pretty in pretties:
                for pos in (0, 1, 2):          # addressed story first / middle / last
                    # three stories; all use the SAME item IDs (lookups must be scoped)
                    names = ['A', 'B', 'C']
                    stories = []
                    for k, nm in enumerate(names):
                        cnt = n if k == pos else 2
                        st = gen.simple_story(nm, cnt, item_prefix='i', inter=inter)
                        if k != pos:
                            st.append(B.item('only-elsewhere', 'an item ID the addressed story does not have'))
                        if item_names:
                            # (the first cnt items only: 'only-elsewhere' keeps its name)
                            for el, newid in zip([c for c in st if c.tag == 'item'][:cnt], item_names):
                                el.find('itemID').text = newid
                        stories.append(st)
                    ro_txt = B.ro_doc('RO', 1, stories, ed_start='2020-01-01T12:30:00', pretty=pretty)
                    for kind, kw in gen.item_grid_messages(names[pos], I, other_story=names[(pos + 1) % 3], kmax=kmax, full=full,
                                                           unk=_unknown_for(item_names) if item_names else 'zz-unknown',
                                                           elsewhere='only-elsewhere'):
                        idx += 1
                        if not s.mine(idx):
                            continue
                        run_case(s, ro_txt, kind, kw, pretty=pretty,
                                 noise_rng=s.rng('split', idx) if (item_names and idx % 2) else None)
    s.hist['grid_cases_total'] = idx


def idless_states():
    """Running-order documents holding a story / item without its ID tag or a completely empty
    <story/> / <item/> (states a message that lost an element leaves behind)."""
    from ..build import E
    out = []
    for odd in (E('story', None, E('storySlug', 'no id here'), B.item('x1', 'x'), E('p', 'text of the id-less story')),
                E('story')):
        for pos in (0, 1, 3):
            for timed in (True, False):
                stories = [gen.simple_story(n, 2, inter=True, timed=timed) for n in ('A', 'B', 'C')]
                stories.insert(pos, B.clone(odd))
                out.append(B.ro_doc('RO', 1, stories, ed_start='2020-01-01T12:30:00'))
    # two stories without an ID, and story IDs that occur twice (left by an append / replace that re-used an ID)
    for names in (['A', None, 'B', None], ['A', 'X', 'B', 'X'], ['X', 'X'], [None, None]):
        for timed in (True, False):
            stories = []
            for k, n in enumerate(names):
                st = gen.simple_story(n or 'tmp', 2, item_prefix='q%d.' % k, inter=True, timed=timed)
                if n is None:
                    st.remove(st.find('storyID'))
                st.append(E('p', 'paragraph of story number %d' % k))
                stories.append(st)
            out.append(B.ro_doc('RO', 1, stories, ed_start='2020-01-01T12:30:00'))
    for odd in (E('item', None, E('itemSlug', 'no id here')), E('item')):
        for pos in (0, 2):
            st = gen.simple_story('A', 3, item_prefix='a', inter=True)
            st.insert(1 + pos, B.clone(odd))
            out.append(B.ro_doc('RO', 1, [gen.simple_story('Z', 2), st], ed_start='2020-01-01T12:30:00'))
    return out


def idless_cases(s):
    """Running orders holding a story / item without its ID tag, or a completely empty
    <story/> / <item/>, met by blank references and by multi-ID messages whose IDs lie on
    both sides of it.  Judged: a blank reference touches nothing (C03), a raise leaves the
    text unchanged (C05), no foreign exception (C12), every listed ID acted on (C06 via the relation
    where the IDs are unique)."""
    from ..build import BLANK, E
    idx = 0
    odd_stories = [E('story', None, E('storySlug', 'no id here'), B.item('x1', 'x')), E('story')]
    odd_items = [E('item', None, E('itemSlug', 'no id here')), E('item')]
    new_story = lambda i: gen.simple_story(i, 1)
    new_item = lambda i: B.item(i, 'new ' + i)
    for odd in odd_stories:
        for pos in (0, 1, 2):
            stories = [gen.simple_story(n, 2) for n in ('A', 'B', 'C')]
            stories.insert(pos, B.clone(odd))
            ro_txt = B.ro_doc('RO', 1, stories, ed_start='2020-01-01T12:30:00')
            cases = []
            for kind in ('roStoryDelete', 'EAStoryDelete'):
                for ids in ([BLANK], ['A', 'C'], ['C', 'A'], ['A', 'gone'], ['gone', 'C'], [BLANK, 'B'], ['A', BLANK, 'C']):
                    cases.append((kind, dict(ids=ids)))
            for kind in ('roStoryReplace', 'EAStoryReplace'):
                cases.append((kind, dict(target=BLANK, carried=[new_story('N1')])))
                cases.append((kind, dict(target='C', carried=[new_story('N1')])))
            cases.append(('roStoryMove', dict(ids=[BLANK], target='A')))
            cases.append(('roStoryMove', dict(ids=['C'], target='A')))
            cases.append(('EAStoryMove', dict(ids=['A', 'C'], target=BLANK)))
            cases.append(('EAStoryMove', dict(ids=[BLANK], target='A')))
            cases.append(('EAStorySwap', dict(ids=[BLANK, 'A'], target=BLANK)))
            cases.append(('EAStorySwap', dict(ids=['A', 'C'], target=BLANK)))
            cases.append(('roStorySend', dict(story_ref=BLANK, body=[E('p', 'sent')], fields=['BODY'])))
            cases.append(('roStorySend', dict(story_ref='C', body=[E('p', 'sent')], fields=['BODY'])))
            for kind in ('roStoryInsert', 'EAStoryInsert'):
                cases.append((kind, dict(target=BLANK, carried=[new_story('N1')])))
                cases.append((kind, dict(target='C', carried=[new_story('N1'), new_story('N2')])))
            for kind, kw in cases:
                idx += 1
                if s.mine(idx):
                    run_case(s, ro_txt, kind, kw, ctx={'idless': 'story'})
    for odd in odd_items:
        for pos in (0, 1, 3):
            st = gen.simple_story('A', 3, item_prefix='a')
            items = [c for c in st if c.tag == 'item']
            st.insert(list(st).index(items[0]) + pos, B.clone(odd))
            ro_txt = B.ro_doc('RO', 1, [gen.simple_story('Z', 2, item_prefix='a'), st], ed_start='2020-01-01T12:30:00')
            cases = []
            for kind in ('roItemDelete', 'EAItemDelete'):
                for ids in ([BLANK], ['a0', 'a2'], ['a2', 'a0'], ['a0', 'gone'], ['gone', 'a2'], [BLANK, 'a1'], ['a0', BLANK, 'a2']):
                    cases.append((kind, dict(story_ref='A', ids=ids)))
            for kind in ('roItemReplace', 'EAItemReplace'):
                cases.append((kind, dict(story_ref='A', target=BLANK, carried=[new_item('n1')])))
                cases.append((kind, dict(story_ref='A', target='a2', carried=[new_item('n1')])))
            for kind in ('roItemMoveMultiple', 'EAItemMove'):
                cases.append((kind, dict(story_ref='A', ids=[BLANK], target='a0')))
                cases.append((kind, dict(story_ref='A', ids=['a2'], target='a0')))
                cases.append((kind, dict(story_ref='A', ids=['a0', 'a2'], target=BLANK)))
            cases.append(('EAItemSwap', dict(story_ref='A', ids=[BLANK, 'a0'])))
            cases.append(('EAItemSwap', dict(story_ref='A', ids=['a0', 'a2'])))
            for kind in ('roItemInsert', 'EAItemInsert'):
                cases.append((kind, dict(story_ref='A', target=BLANK, carried=[new_item('n1')])))
                cases.append((kind, dict(story_ref='A', target='a2', carried=[new_item('n1')])))
            for kind, kw in cases:
                idx += 1
                if s.mine(idx):
                    run_case(s, ro_txt, kind, kw, ctx={'idless': 'item'})
    s.hist['idless_cases_total'] = idx


def many_unresolvable(s, counts=(11, 12, 13, 25, 60)):
    """One message naming many elements that cannot be found (or many duplicates) plus one
    that can: one report per element however many there are, and the resolvable one is applied."""
    idx = 0
    S = ['A', 'B', 'C']
    ro_txt = gen.grid_ro(S, 'before', pretty=False, items=3)
    for n in counts:
        for pos in (0, n // 2, n):
            unknown = ['gone-%d' % k for k in range(n)]
            cases = []
            for kind in ('roStoryDelete', 'EAStoryDelete'):
                cases.append((kind, dict(ids=unknown[:pos] + ['B'] + unknown[pos:])))
            for kind in ('roItemDelete', 'EAItemDelete'):
                cases.append((kind, dict(story_ref='B', ids=unknown[:pos] + ['B.1'] + unknown[pos:])))
            for kind in ('roStoryInsert', 'EAStoryInsert'):
                dups = [gen.simple_story(S[k % 3], 1) for k in range(n)]
                cases.append((kind, dict(target='B', carried=dups[:pos] + [gen.simple_story('NEW', 1)] + dups[pos:])))
            for kind, kw in cases:
                idx += 1
                if s.mine(idx):
                    run_case(s, ro_txt, kind, kw, ctx={'many': n})
                    s.hist['many_unresolvable'] += 1


def reuse_objects(s, kinds, n):
    """One message object added to two (fresh, identical) running orders one after the other, then a freshly
    parsed copy to a third: every one of the three adds is judged on its own by the transition relation."""
    for i in range(n):
        if not s.mine(i):
            continue
        rng = s.rng('reuse', i)
        pool = gen.text_pool('plain')
        kind = kinds[i % len(kinds)]
        ro_txt = gen.rand_ro(rng, n_stories=rng.randint(2, 5), pool=pool, rich=False)
        msg_txt = gen.rand_message(rng, Abs(ro_txt), kind, 40, gen.Ids('U%d.' % i), pool=pool, rich=False,
                                   shape_weights=(0.92, 0.04, 0.04, 0.0), selfref=0.03)
        try:
            m = s.load(msg_txt)
        except Exception:
            continue
        for k in range(2):
            ro = s.load(ro_txt)
            s.add(ro, m)
            s.drain_and_judge(None, {'reuse': i, 'use': k + 1})
        ro = s.load(ro_txt)
        s.add(ro, s.load(msg_txt))
        s.drain_and_judge(None, {'reuse': i, 'use': 'fresh'})
        s.hist['reuse_objects'] += 1


def weighted_kinds(rng, weights):
    kinds = list(weights)
    return rng.choices(kinds, [weights[k] for k in kinds])[0]


def kind_weights(story=1.0, item=1.0, other=0.3, end=0.05):
    w = {}
    for k in B.STORY_KINDS:
        w[k] = story
    for k in B.ITEM_KINDS:
        w[k] = item
    w['roReplace'] = other * 0.5
    w['roMetadataReplace'] = other
    w['roReadyToAir'] = other * 0.3
    w['roDelete'] = end
    return w


def fuzz_history(s, hidx, weights, steps=(5, 30), text='plain', timing='any', rich=True,
                 shape_weights=(0.78, 0.1, 0.08, 0.04), selfref=0.06, after_end=3, on_state=None,
                 ro_kw=None, direct=0.0, blank_carried=0.0, other_ro=0.05, drop=0.0):
    rng = s.rng('hist', hidx)
    pool = gen.text_pool(text)
    ids = gen.Ids('F%d.' % hidx)
    ro_txt = gen.rand_ro(rng, pool=pool, timing=timing, ids=gen.Ids('S'), rich=rich, **(ro_kw or {}))
    ro = s.load(ro_txt)
    cur = ro_txt
    n = rng.randint(*steps)
    ended = 0
    if on_state:
        on_state(ro, cur, None)
    for k in range(n):
        try:
            state = Abs(cur)
        except ET.ParseError:
            break
        kind = weighted_kinds(rng, weights)
        # message IDs usually ascend; in every fourth history they do not (an NCS restart, arrival order)
        mid_ = (100 + k) if hidx % 4 != 1 else rng.choice([300 - 3 * k, 5, 100 + k, 1])
        msg = gen.rand_message(rng, state, kind, mid_, ids, pool=pool, timing=timing,
                               shape_weights=shape_weights, selfref=selfref, rich=rich,
                               blank_carried=blank_carried, other_ro=other_ro, drop=drop)
        if kind == 'roDelete' and rng.random() < 0.2:
            # a roDelete whose envelope has no messageID element: it ends the running order all the same
            import re
            msg = re.sub(r'\s*<messageID>[^<]*</messageID>', '', msg, count=1)
        if direct and not state.completed and rng.random() < direct:
            ro, err, v, ev = s.step_direct(ro, msg, {'history': hidx, 'step': k, 'direct': True})
        else:
            ro, err, v, ev = s.step(ro, msg, {'history': hidx, 'step': k})
        if ev is not None and ev.get('post_xml'):
            cur = ev['post_xml']
            if hidx % 3 == 2:
                # every third history: IDs of stories that are gone may come back in later messages
                ids.rng = rng
                try:
                    now = set(Abs(cur).story_ids)
                    ids.recycled.extend(x_ for x_ in state.story_ids if x_ and x_ not in now and x_ not in ids.recycled)
                except ET.ParseError:
                    pass
        if on_state:
            on_state(ro, cur, ev)
        if state.completed or (ev is not None and Abs(cur).completed):
            ended += 1
            if ended > after_end:
                break
    return ro


def fuzz(s, n_hist, weights, **kw):
    for h in range(n_hist):
        if s.mine(h):
            fuzz_history(s, h, weights, **kw)
    s.hist['fuzz_histories_total'] = n_hist


def replay_transition(s, data):
    """Re-execute a recorded transition witness on the current tree."""
    w = data['witness']
    if w.get('type') != 'transition':
        s.inconclusive.append('witness type %r not replayable here' % w.get('type'))
        return
    ro = s.load(w['pre_xml'])
    s.step(ro, w['msg_xml'], {'replay': True})


def need(agg, reasons, cond, text):
    if not cond:
        reasons.append(text)


def kinds_seen(agg, kinds, reasons, what='ADD'):
    for k in kinds:
        if agg['hist'].get('kind:' + k, 0) == 0:
            reasons.append('message kind %s never observed by the %s monitor' % (k, what))


def sig_has(agg, *frags):
    return any(all(f in sg for f in frags) for sg in agg['sigs'])


# --------------------------------------------------------------------------
# collections

def collection_merge(s, docs, strict, allow_incomplete=True, ctx=None, how='strings'):
    """Build a MosCollection from document texts and merge it under the
    monitors.  Returns (mc|None, construct_exc|None, merge_exc|None, warnings)."""
    import warnings as W
    from .. import events as EV
    import mosromgr.moscollection as mcmod
    EV.STATE['quiet'] = EV.STATE.get('quiet', 0) + 1
    try:
        try:
            mc = mcmod.MosCollection.from_strings(list(docs), allow_incomplete=allow_incomplete)
        except Exception as e:
            return None, e, None, []
    finally:
        EV.STATE['quiet'] -= 1
    with W.catch_warnings(record=True) as wl:
        W.simplefilter('always')
        # a filter with a message pattern in front (it matches nothing): the warnings machinery applies the
        # pattern to the TEXT of every warning on its way to the next filter
        W.filterwarnings('ignore', message='this text never occurs in a mosromgr warning', category=DeprecationWarning)
        EV.STATE['quiet'] = EV.STATE.get('quiet', 0) + 1
        try:
            mc.merge(strict=strict)
            err = None
        except Exception as e:
            err = e
        finally:
            EV.STATE['quiet'] -= 1
    s.drain_and_judge(None, ctx)
    return mc, None, err, wl


def subset_cases(S, level, story_ref=None, nmax=4):
    """C06: messages naming n elements, every subset of them unresolvable /
    duplicate.  Yields (kind, kwargs, n, mask)."""
    import itertools
    from ..build import BLANK
    idk = 'ids'
    for n in range(1, min(nmax, max(len(S), 1)) + 1):
        for mask in itertools.product((0, 1, 2), repeat=n):      # 0 ok, 1 unknown, 2 blank
            if mask.count(2) > 1:
                continue
            named = []
            avail = list(S)
            for k, mk in enumerate(mask):
                if mk == 0:
                    if not avail:
                        break
                    named.append(avail.pop(0))
                elif mk == 1:
                    named.append('zz-unk-%d' % k)
                else:
                    named.append(BLANK)
            else:
                rest = avail
                if level == 'story':
                    yield 'roStoryDelete', dict(ids=named), n, mask
                    yield 'EAStoryDelete', dict(ids=named), n, mask
                    for t in (rest[:1] + [BLANK, 'zz-unk-target']):
                        yield 'EAStoryDelete', dict(ids=named, target=t), n, mask
                    for t in (rest[:1] + [BLANK]):
                        yield 'EAStoryMove', dict(ids=named, target=t), n, mask
                else:
                    yield 'roItemDelete', dict(story_ref=story_ref, ids=named), n, mask
                    yield 'EAItemDelete', dict(story_ref=story_ref, ids=named), n, mask
                    for t in (rest[:1] + [BLANK]):
                        yield 'roItemMoveMultiple', dict(story_ref=story_ref, ids=named, target=t), n, mask
                        yield 'EAItemMove', dict(story_ref=story_ref, ids=named, target=t), n, mask
    if level == 'story':
        # inserts: every subset of the carried stories duplicates an existing one
        for n in range(1, nmax + 1):
            for mask in itertools.product((0, 1), repeat=n):
                carried = []
                ex = list(S)
                ok = True
                for k, mk in enumerate(mask):
                    if mk:
                        if not ex:
                            ok = False
                            break
                        carried.append(gen.simple_story(ex.pop(), 1))
                    else:
                        carried.append(gen.simple_story('new%d' % k, 1))
                if not ok:
                    continue
                for t in (list(S)[:1] + list(S)[-1:] + [BLANK]):
                    yield 'EAStoryInsert', dict(target=t, carried=[B.clone(c) for c in carried]), n, mask
                    if t is not BLANK:
                        yield 'roStoryInsert', dict(target=t, carried=[B.clone(c) for c in carried]), n, mask


# --------------------------------------------------------------------------
# collections through the three constructors, and the hand fold

_S3 = {'on': False, 'n': 0}


def ensure_fake_s3():
    from .. import attach, fakes3
    if not _S3['on']:
        attach.install_fake_s3(fakes3)
        _S3['on'] = True
    return fakes3


def make_collection(s, docs, how, allow_incomplete, tmpdir=None, names=None):
    """Returns (mc, exc).  how: strings | files | s3."""
    import os
    import mosromgr.moscollection as mcmod
    from .. import events as EV
    EV.STATE['quiet'] = EV.STATE.get('quiet', 0) + 1
    # allow_incomplete='omitted': the keyword is not passed at all (the documented default is False)
    kwargs = {} if allow_incomplete == 'omitted' else {'allow_incomplete': allow_incomplete}
    try:
        if how == 'strings':
            return mcmod.MosCollection.from_strings(list(docs), **kwargs), None
        if how in ('files', 'files-mixed'):
            paths = []
            for k, d in enumerate(docs):
                p = os.path.join(tmpdir, (names[k] if names else 'f%03d.mos.xml' % k))
                os.makedirs(os.path.dirname(p), exist_ok=True)      # names may put files in directories of their own
                with open(p, 'w', encoding='utf-8') as f:
                    f.write(d)
                # when a file was written says nothing about the message in it: modification times spread over
                # three days around midnight, unrelated to the message IDs
                import zlib
                h_ = zlib.crc32(d.encode('utf-8', 'replace')) ^ (k * 2654435761 & 0xffffffff)
                t_ = 1710028800 + (h_ % 3 - 1) * 86400 + (h_ >> 3) % 7200 - 3600      # 2024-03-10T00:00Z +- a day, +- an hour
                os.utime(p, (t_, t_))
                # files-mixed: every other path is given relative to the working directory
                paths.append(os.path.relpath(p) if (how == 'files-mixed' and k % 2) else p)
            return mcmod.MosCollection.from_files(paths, **kwargs), None
        if how == 's3':
            f3 = ensure_fake_s3()
            _S3['n'] += 1
            bucket = 'bucket-%d' % _S3['n']
            f3.BUCKETS.pop(bucket, None)
            # the prefix is a plain key prefix: it need not end at a "folder" boundary
            prefix = ['pre/fix/', 'pre/fix/run7-', 'pre/fix/r', 'pre/fix'][_S3['n'] % 4]
            stem = {'pre/fix/': 'pre/fix/', 'pre/fix/run7-': 'pre/fix/run7-', 'pre/fix/r': 'pre/fix/run7-', 'pre/fix': 'pre/fix/'}[prefix]
            for k, d in enumerate(docs):
                f3.put(bucket, stem + (names[k] if names else
                                       ['k%03d.mos.xml', 'k.%03d.v2.mos.xml', '22.31.%03d-msg.mos.xml',
                                        'k+%03d %%2F.mos.xml'][(_S3['n'] + k) % 4] % k), d)
            f3.put(bucket, 'pre/fix/ignored.txt', 'not a mos file')
            f3.put(bucket, 'other/zzz.mos.xml', '<mos/>')
            f3.put(bucket, 'pre/other-run.mos.xml', '<mos/>')
            f3.CONFIG['page_size'] = 1 + (_S3['n'] % 5)
            return mcmod.MosCollection.from_s3(bucket_name=bucket, prefix=prefix, **kwargs), None
        raise ValueError(how)
    except Exception as e:
        return None, e
    finally:
        EV.STATE['quiet'] -= 1


def acceptable(docs, allow_incomplete):
    """The acceptance rule of collections (C11): one running-order ID, exactly one roCreate, at most one
    roDelete - exactly one unless incompleteness is allowed."""
    from xml.etree import ElementTree as ET
    from ..spec import classify_doc
    try:
        roots = [ET.fromstring(d) for d in docs]
        classes = [classify_doc(r) for r in roots]
    except Exception:
        return False
    if any(c in (None, 'UnknownMosFileType') for c in classes):
        return False
    roids = set()
    for root in roots:
        for c in root:
            r = c.find('roID')
            if r is not None:
                roids.add(r.text)
    n_c, n_d = classes.count('RunningOrder'), classes.count('RunningOrderEnd')
    return len(docs) >= 1 and len(roids) == 1 and n_c == 1 and n_d <= 1 and (allow_incomplete is True or n_d == 1)


def merge_collection(s, mc, strict):
    """mc.merge under an always filter.  Returns (exc|None, warning names)."""
    import warnings as W
    from .. import events as EV
    with W.catch_warnings(record=True) as wl:
        W.simplefilter('always')
        # a filter with a message pattern in front (it matches nothing): the warnings machinery applies the
        # pattern to the TEXT of every warning on its way to the next filter
        W.filterwarnings('ignore', message='this text never occurs in a mosromgr warning', category=DeprecationWarning)
        EV.STATE['quiet'] = EV.STATE.get('quiet', 0) + 1
        try:
            mc.merge(strict=strict)
            err = None
        except Exception as e:
            err = e
        finally:
            EV.STATE['quiet'] -= 1
    return err, [type(w.message).__name__ for w in wl]


def message_id_of(doc):
    from xml.etree import ElementTree as ET
    return int(ET.fromstring(doc).find('messageID').text)


def hand_fold(s, docs, strict):
    """The sequential fold the property names: add each message, freshly read,
    to the roCreate in ascending message-ID order.  Returns
    (text, n_failed, propagated_exc|None, applied_ids)."""
    import warnings as W
    from ..spec import classify_doc
    from xml.etree import ElementTree as ET
    ordered = sorted(docs, key=message_id_of)
    create = [d for d in ordered if classify_doc(ET.fromstring(d)) == 'RunningOrder']
    rest = [d for d in ordered if classify_doc(ET.fromstring(d)) != 'RunningOrder']
    ro = s.load(create[0])
    failed = 0
    applied = []
    MosMergeError = s.exc.MosMergeError
    with W.catch_warnings():
        W.simplefilter('ignore')
        for d in rest:
            msg = s.load(d)
            try:
                ro = ro + msg
                applied.append(message_id_of(d))
            except MosMergeError as e:
                failed += 1
                if strict:
                    return str(ro), failed, e, applied
            except Exception as e:
                return str(ro), failed, e, applied
    return str(ro), failed, None, applied


# --------------------------------------------------------------------------
# the repository's own test-suite as a workload (monitors attached by
# mon/auto/sitecustomize.py inside the pytest process)

def suite_workload(s, only_worker=None):
    """Run `pytest tests` of the repository with BBC_MOSROMGR_VERIF=1 and judge
    every + it performs with the same oracles.  Messages the interpreter cannot
    read as schema-shaped are counted as out of claim by the judge."""
    import glob
    import json
    import os
    import subprocess
    import sys
    import tempfile
    if only_worker is None:
        only_worker = s.nw - 1
    if s.wi != only_worker:
        return
    from ..run import worker_env, HERE
    from ..attach import repo_root
    repo = repo_root()
    if not os.path.isdir(os.path.join(repo, 'tests')):
        s.notes.append('repository test-suite not found; suite workload skipped')
        return
    tmp = tempfile.mkdtemp(prefix='verif-suite-')
    env = worker_env({'VERIF_EVENT_OUT': os.path.join(tmp, 'ev'), 'VERIF_COV': '0'})
    env['PYTHONPATH'] = os.pathsep.join([repo, os.path.join(HERE, 'mon', 'auto')])
    try:
        p = subprocess.run([sys.executable, '-B', '-m', 'pytest', '-q', '-x', '-p', 'no:cacheprovider', 'tests'],
                           cwd=repo, env=env, capture_output=True, text=True, timeout=600)
        s.hist['suite:pytest_rc=%d' % p.returncode] += 1
        n = 0
        for f in glob.glob(os.path.join(tmp, 'ev.*.json')):
            data = json.load(open(f))
            for ev in data['events']:
                if ev.get('ev') == 'ADD':
                    n += 1
                    s.judge_event(ev, None, {'workload': 'repository test-suite'})
            for fail in data.get('acc_fail', []):
                s.hist['suite:accessor_%s:%s.%s' % (fail['kind'], fail['cls'], fail['name'])] += 1
        s.hist['suite:add_events_judged'] += n
    except subprocess.TimeoutExpired:
        s.notes.append('repository test-suite workload timed out (not a verdict)')
    finally:
        for f in glob.glob(os.path.join(tmp, '*')):
            os.unlink(f)
        os.rmdir(tmp)


# --------------------------------------------------------------------------
# kind-pair histories: k1 k2 k1 k2 k1 on ONE running-order object, for every
# ordered pair of kinds.  Aimed at state that survives between merges (caches,
# memoised lookups, shared nodes): whatever k1 leaves behind is exercised again
# by k1 after k2 has changed the running order.

def pair_histories(s, kinds=None, rounds=5, text='plain', timing='any', on_state=None,
                   shape_weights=(0.94, 0.03, 0.03, 0.0), tag='pair'):
    kinds = kinds or [k for k in B.ALL_KINDS if k != 'roDelete']
    idx = 0
    for k1 in kinds:
        for k2 in kinds:
            idx += 1
            if not s.mine(idx):
                continue
            rng = s.rng(tag, k1, k2)
            pool = gen.text_pool(text)
            ids = gen.Ids('Y%d.' % idx)
            ro_txt = gen.rand_ro(rng, n_stories=rng.randint(3, 5), pool=pool, timing=timing,
                                 meta_layout=rng.choice(['before', 'between', 'everywhere']))
            ro = s.load(ro_txt)
            cur = ro_txt
            if on_state:
                on_state(ro, cur, None)
            for step in range(rounds):
                kind = k1 if step % 2 == 0 else k2
                try:
                    state = Abs(cur)
                except ET.ParseError:
                    break
                msg = gen.rand_message(rng, state, kind, 100 + step, ids, pool=pool, timing=timing,
                                       shape_weights=shape_weights, selfref=0.0, other_ro=0.08)
                ro, err, v, ev = s.step(ro, msg, {'pair': (k1, k2), 'step': step})
                if ev is not None and ev.get('post_xml'):
                    cur = ev['post_xml']
                if on_state:
                    on_state(ro, cur, ev)
    s.hist['pair_histories_total'] = idx


# --------------------------------------------------------------------------
# IDs are per kind and per tag: a story may be called what an item (here or elsewhere) is called, and the
# objID / mosID / slug / storyNum of one element may spell the ID of another.  Lookups and duplicate checks
# that look at more than the ID tag of the right kind of element show here.

def collision_cases(s, level='both'):
    from ..build import E
    idx = 0

    def it(i, obj=None, mos=None, slug='x'):
        extra = []
        if obj is not None:
            extra.append(E('objID', obj))
        if mos is not None:
            extra.append(E('mosID', mos))
        return B.item(i, slug, extra)
    # stories 1 2 3 whose items are called 1 2 3 / N1 as well; the slug and storyNum of one story spell another's ID
    st = [B.story('1', '2', [it('2', obj='3'), it('3', obj='1'), it('N1', obj='2', mos='3')], extra=[E('storyNum', '3')]),
          B.story('2', '3', [it('1', obj='N2'), it('N2', obj='1')], extra=[E('storyNum', '1')]),
          B.story('3', '1', [it('3'), it('1', mos='3'), it('2', slug='3')])]
    for layout in ('none', 'between'):
        entries = list(st) if layout == 'none' else [st[0], E('macroIn', '2'), st[1], E('roTrigger', '3'), st[2]]
        ro_txt = B.ro_doc('RO', 1, [B.clone(e) for e in entries], ed_start='2020-01-01T12:30:00')
        new = lambda i: gen.simple_story(i, 1, item_prefix='q')
        cases = []
        if level in ('both', 'story'):
            cases += [('roStoryInsert', dict(target='2', carried=[new('N1')])), ('roStoryInsert', dict(target='3', carried=[new('N2'), new('N9')])),
                      ('EAStoryInsert', dict(target='1', carried=[new('N1'), new('N2')])), ('EAStoryInsert', dict(target=B.BLANK, carried=[new('N1')])),
                      ('roStoryAppend', dict(carried=[new('N2')])), ('roStoryReplace', dict(target='2', carried=[new('N1')])),
                      ('EAStoryReplace', dict(target='3', carried=[new('N2')])),
                      ('roStoryDelete', dict(ids=['2'])), ('EAStoryDelete', dict(ids=['3', '1'])), ('roStoryDelete', dict(ids=['N1'])),
                      ('roStoryMove', dict(ids=['3'], target='1')), ('EAStoryMove', dict(ids=['3', '2'], target='1')),
                      ('EAStorySwap', dict(ids=['1', '3'])), ('roStoryMove', dict(ids=['N2'], target='1')),
                      ('roStorySend', dict(story_ref='2', body=[E('p', 'sent')], fields=['BODY']))]
        if level in ('both', 'item'):
            cases += [('roItemDelete', dict(story_ref='1', ids=['3'])), ('EAItemDelete', dict(story_ref='1', ids=['3', 'N1'])),
                      ('roItemDelete', dict(story_ref='2', ids=['N2'])), ('roItemDelete', dict(story_ref='3', ids=['1'])),
                      ('roItemInsert', dict(story_ref='1', target='3', carried=[it('n', obj='2')])),
                      ('EAItemInsert', dict(story_ref='2', target='N2', carried=[it('n')])),
                      ('roItemReplace', dict(story_ref='1', target='N1', carried=[it('n')])),
                      ('EAItemReplace', dict(story_ref='3', target='1', carried=[it('n')])),
                      ('roItemMoveMultiple', dict(story_ref='1', ids=['N1'], target='3')),
                      ('roItemMoveMultiple', dict(story_ref='1', ids=['3'], target='2')),
                      ('EAItemMove', dict(story_ref='1', ids=['N1', '3'], target='2')),
                      ('EAItemMove', dict(story_ref='3', ids=['2'], target='3')),
                      ('EAItemSwap', dict(story_ref='1', ids=['2', '3'])), ('EAItemSwap', dict(story_ref='3', ids=['1', '2']))]
        for kind, kw in cases:
            idx += 1
            if s.mine(idx):
                run_case(s, ro_txt, kind, kw, ctx={'collision': layout})
    s.hist['collision_cases'] = idx


# --------------------------------------------------------------------------
# delete, then create again under the same ID (the NCS re-creates a story, or moves it by delete + insert):
# on ONE running-order object.  What a running order remembers about elements that are gone shows here.

def recreate_cases(s, level='both'):
    new = lambda i: gen.simple_story(i, 2)
    idx = 0
    for layout in ('none', 'between'):
        ro_txt = gen.grid_ro(['A', 'B', 'C', 'D'], layout, pretty=False)
        if level in ('both', 'story'):
            deletes = [('roStoryDelete', dict(ids=['B'])), ('EAStoryDelete', dict(ids=['B'])), ('roStoryDelete', dict(ids=['B', 'C'])),
                       ('roStoryReplace', dict(target='B', carried=[new('N0')])), ('EAStoryReplace', dict(target='B', carried=[new('N0')]))]
            creates = [('roStoryInsert', dict(target='D', carried=[new('B')])), ('EAStoryInsert', dict(target='A', carried=[new('N1'), new('B')])),
                       ('EAStoryInsert', dict(target=B.BLANK, carried=[new('B')])), ('roStoryAppend', dict(carried=[new('B'), new('N2')])),
                       ('roStoryReplace', dict(target='A', carried=[new('B')])), ('EAStoryReplace', dict(target='D', carried=[new('B'), new('N3')]))]
            follow = [('roStoryMove', dict(ids=['B'], target='A')), ('roStorySend', dict(story_ref='B', body=[B.E('p', 'again')], fields=['BODY'])),
                      ('roItemInsert', dict(story_ref='B', target=B.BLANK, carried=[B.item('late', 'x')]))]
        else:
            deletes, creates, follow = [], [], []
        if level in ('both', 'item'):
            ideletes = [('roItemDelete', dict(story_ref='B', ids=['B.0'])), ('EAItemDelete', dict(story_ref='B', ids=['B.0'])),
                        ('roItemReplace', dict(story_ref='B', target='B.0', carried=[B.item('n0', 'x')]))]
            icreates = [('roItemInsert', dict(story_ref='B', target='B.1', carried=[B.item('B.0', 'back')])),
                        ('EAItemInsert', dict(story_ref='B', target=B.BLANK, carried=[B.item('n1', 'x'), B.item('B.0', 'back')])),
                        ('roItemReplace', dict(story_ref='B', target='B.1', carried=[B.item('B.0', 'back')])),
                        ('roItemInsert', dict(story_ref='C', target=B.BLANK, carried=[B.item('B.0', 'elsewhere')]))]
            ifollow = [('roItemMoveMultiple', dict(story_ref='B', ids=['B.0'], target=B.BLANK))]
        else:
            ideletes, icreates, ifollow = [], [], []
        for dels, crs, fol in ((deletes, creates, follow), (ideletes, icreates, ifollow)):
            for d_ in dels:
                for c_ in crs:
                    idx += 1
                    if not s.mine(idx):
                        continue
                    ro = s.load(ro_txt)
                    cur = ro_txt
                    for step, (kind, kw) in enumerate([d_, c_] + fol[:1 + idx % len(fol)]):
                        msg = B.msg_doc(kind, 10 + step, **kw)
                        ro, err, v, ev = s.step(ro, msg, {'recreate': idx, 'step': step})
                        if ev is not None and ev.get('post_xml'):
                            cur = ev['post_xml']
                    s.hist['recreate_histories'] += 1


# --------------------------------------------------------------------------
# re-send after reorder: roStorySend X; a reorder that keeps the story count
# (move / swap / 1:1 replace / EA move); roStorySend of every story - on ONE
# running-order object.  Position lookups that survive between merges go stale
# exactly here.

def resend_after_reorder(s, nmax=4, layouts=('none', 'before', 'between')):
    idx = 0
    E = B.E

    def send(x, tag):
        return B.msg_doc('roStorySend', 7, story_ref=x, body=[E('p', 'resent ' + tag)],
                         fields=[E('storySlug', 'resent ' + x), 'BODY'])
    for n in range(2, nmax + 1):
        S = STORY_NAMES[:n]
        for layout in layouts:
            ro_txt = gen.grid_ro(S, layout, pretty=False)
            reorders = []
            for a in S:
                for b in S:
                    if a != b:
                        reorders.append(('roStoryMove', dict(ids=[a], target=b)))
                        reorders.append(('EAStorySwap', dict(ids=[a, b])))
                reorders.append(('roStoryMove', dict(ids=[a], target=B.BLANK)))
                reorders.append(('EAStoryMove', dict(ids=[a], target=B.BLANK)))
                reorders.append(('roStoryReplace', dict(target=a, carried=[gen.simple_story('R' + a, 1)])))
            for first in S:
                for kind, kw in reorders:
                    idx += 1
                    if not s.mine(idx):
                        continue
                    ro = s.load(ro_txt)
                    ctx = {'resend-after-reorder': (first, kind)}
                    ro, err, v, ev = s.step(ro, send(first, 'first'), ctx)
                    ro, err, v, ev = s.step(ro, B.msg_doc(kind, 8, **kw), ctx)
                    cur = ev['post_xml'] if ev else ro_txt
                    for x in Abs(cur).story_ids:
                        ro, err, v, ev = s.step(ro, send(x, 'again'), ctx)
    s.hist['resend_after_reorder_cases'] = idx


# --------------------------------------------------------------------------
# the repository's fixtures as seeds: every message fixture merged into every
# roCreate fixture (verbatim), judged by the same relation

def fixtures_workload(s):
    import os
    from ..attach import repo_root
    fixdir = os.path.join(repo_root(), 'tests', 'mock_mos')
    if not os.path.isdir(fixdir):
        s.notes.append('fixture directory not found; fixture workload skipped')
        return
    names = sorted(f for f in os.listdir(fixdir) if f.endswith('.xml'))
    creates = [f for f in names if f.startswith('roCreate')]
    idx = 0
    for c in creates:
        ctext = open(os.path.join(fixdir, c), encoding='utf-8').read()
        for m in names:
            if m.startswith('roCreate') or m.startswith('roInvalid'):
                continue
            idx += 1
            if not s.mine(idx):
                continue
            mtext = open(os.path.join(fixdir, m), encoding='utf-8').read()
            try:
                ro = s.load(ctext)
            except Exception:
                continue
            s.step(ro, mtext, {'fixture': (c, m)})
    s.hist['fixture_cases'] = idx


# --------------------------------------------------------------------------
# large running orders and long ID lists: 12-40 stories, 12-20 items, lists of
# up to 12 IDs (anything that orders or indexes by position shows here, e.g.
# "10" sorting before "9")

def large_cases(s, n_cases, level='both'):
    for i in range(n_cases):
        if not s.mine(i):
            continue
        rng = s.rng('large', i)
        n = rng.randint(12, 40)
        S = ['L%d' % k for k in range(n)]
        rng.shuffle(S)
        big = rng.randrange(n)
        stories = []
        for k, nm in enumerate(S):
            stories.append(gen.simple_story(nm, rng.randint(12, 20) if k == big else rng.randint(0, 2),
                                            item_prefix='i', inter=rng.random() < 0.3))
        ro_txt = B.ro_doc('RO', 1, stories, ed_start='2020-01-01T12:30:00', pretty=rng.random() < 0.5)
        ro = s.load(ro_txt)
        cur = ro_txt
        ids = gen.Ids('G%d.' % i)
        for step in range(rng.randint(6, 14)):
            st = Abs(cur)
            live = st.story_ids
            k = rng.randint(2, min(12, len(live) - 1)) if len(live) > 3 else 1
            pick = rng.sample(live, k) if len(live) >= k else list(live)
            rest = [x for x in live if x not in pick]
            bigst = st.story(S[big])
            I = [x for x in (gen.item_ids(bigst) if bigst is not None else [])]
            c = rng.random()
            if len(live) < 3:
                kind, kw = 'roStoryAppend', dict(carried=[gen.simple_story(ids.new(), 1) for _ in range(6)])
            elif level in ('both', 'story') and c < 0.5:
                kind = rng.choice(['EAStoryMove', 'EAStoryDelete', 'roStoryDelete', 'EAStorySwap', 'roStoryMove',
                                   'roStoryInsert', 'EAStoryInsert', 'roStoryReplace'])
                if kind == 'EAStoryMove':
                    kw = dict(ids=pick, target=rng.choice(rest + [B.BLANK]) if rest else B.BLANK)
                elif kind in ('EAStoryDelete', 'roStoryDelete'):
                    kw = dict(ids=pick[:rng.randint(1, len(pick))])
                elif kind == 'EAStorySwap':
                    kw = dict(ids=pick[:2]) if len(pick) >= 2 else dict(ids=live[:2])
                elif kind == 'roStoryMove':
                    kw = dict(ids=pick[:1], target=rng.choice(rest + [B.BLANK]) if rest else B.BLANK)
                elif kind in ('roStoryInsert', 'EAStoryInsert'):
                    kw = dict(target=rng.choice(live), carried=[gen.simple_story(ids.new(), 1) for _ in range(rng.randint(1, 12))])
                else:
                    kw = dict(target=rng.choice(live), carried=[gen.simple_story(ids.new(), 1) for _ in range(rng.randint(1, 12))])
            else:
                if len(I) < 4:
                    kind, kw = 'roItemInsert', dict(story_ref=S[big], target=B.BLANK,
                                                    carried=[B.item(ids.new(), 'x') for _ in range(12)])
                else:
                    kk = rng.randint(2, min(12, len(I) - 1))
                    ip = rng.sample(I, kk)
                    ir = [x for x in I if x not in ip]
                    kind = rng.choice(['roItemMoveMultiple', 'EAItemMove', 'roItemDelete', 'EAItemDelete', 'EAItemSwap',
                                       'roItemInsert', 'EAItemInsert', 'roItemReplace'])
                    if kind in ('roItemMoveMultiple', 'EAItemMove'):
                        kw = dict(story_ref=S[big], ids=ip, target=rng.choice(ir + [B.BLANK]) if ir else B.BLANK)
                    elif kind in ('roItemDelete', 'EAItemDelete'):
                        kw = dict(story_ref=S[big], ids=ip[:rng.randint(1, len(ip))])
                    elif kind == 'EAItemSwap':
                        kw = dict(story_ref=S[big], ids=ip[:2])
                    else:
                        kw = dict(story_ref=S[big], target=rng.choice(I),
                                  carried=[B.item(ids.new(), 'x') for _ in range(rng.randint(1, 12))])
            msg = B.msg_doc(kind, 100 + step, pretty=rng.random() < 0.5, **kw)
            ro, err, v, ev = s.step(ro, msg, {'large': i, 'step': step})
            if ev is not None and ev.get('post_xml'):
                cur = ev['post_xml']
    s.hist['large_cases_total'] = n_cases


# --------------------------------------------------------------------------
# huge running orders: 300 stories / 300 items, operations (self-referential
# ones included) aimed at elements whose child index is above 256

def huge_cases(s, n_cases=2):
    for i in range(n_cases):
        if not s.mine(i):
            continue
        rng = s.rng('huge', i)
        n = 300
        S = ['H%d' % k for k in range(n)]
        stories = [gen.simple_story(nm, 1, item_prefix=nm + '.') for nm in S]
        big = gen.simple_story('BIG', 300, item_prefix='b')
        stories.append(big)
        ro_txt = B.ro_doc('RO', 1, stories, pretty=False)
        hi = S[260:]
        I = ['b%d' % k for k in range(300)]
        hiI = I[260:]
        cases = []
        a, b2, c = rng.sample(hi, 3)
        cases += [('EAStorySwap', dict(ids=[a, a])), ('EAStorySwap', dict(ids=[a, b2])),
                  ('EAStorySwap', dict(ids=[b2, a])),
                  ('roStoryMove', dict(ids=[a], target=a)), ('roStoryMove', dict(ids=[a], target=b2)),
                  ('roStoryMove', dict(ids=[S[3]], target=c)), ('roStoryMove', dict(ids=[c], target=S[2])),
                  ('EAStoryMove', dict(ids=[a, b2], target=b2)), ('EAStoryMove', dict(ids=[a, b2, c], target=S[1])),
                  ('EAStoryMove', dict(ids=[S[0], c], target=B.BLANK)),
                  ('EAStoryDelete', dict(ids=[a, 'nope', c])), ('roStoryDelete', dict(ids=[c, a])),
                  ('roStoryInsert', dict(target=a, carried=[gen.simple_story('N1', 1), gen.simple_story('N2', 1)])),
                  ('roStoryReplace', dict(target=c, carried=[gen.simple_story('N3', 1)])),
                  ('roStorySend', dict(story_ref=b2, body=[B.E('p', 'x')], fields=['BODY']))]
        x, y, z = rng.sample(hiI, 3)
        cases += [('EAItemSwap', dict(story_ref='BIG', ids=[x, x])), ('EAItemSwap', dict(story_ref='BIG', ids=[y, x])),
                  ('roItemMoveMultiple', dict(story_ref='BIG', ids=[x, y], target=y)),
                  ('roItemMoveMultiple', dict(story_ref='BIG', ids=[x, I[2]], target=z)),
                  ('EAItemMove', dict(story_ref='BIG', ids=[z, x], target=I[5])),
                  ('EAItemMove', dict(story_ref='BIG', ids=[x], target=x)),
                  ('roItemDelete', dict(story_ref='BIG', ids=[z, 'nope', x])),
                  ('EAItemDelete', dict(story_ref='BIG', ids=[x, y])),
                  ('roItemInsert', dict(story_ref='BIG', target=x, carried=[B.item('n1', 'x'), B.item('n2', 'y')])),
                  ('roItemReplace', dict(story_ref='BIG', target=y, carried=[B.item('n3', 'x')]))]
        # one message naming / carrying many elements (65, 130, 299): no cap on what a message may list
        for cnt in (65, 130, 299):
            sel = rng.sample(S[:-1], cnt)
            tgt = rng.choice([x_ for x_ in S if x_ not in sel])
            isel = rng.sample(I[:-1], cnt)
            itgt = rng.choice([x_ for x_ in I if x_ not in isel])
            new_s = lambda pre: [gen.simple_story('%s%d' % (pre, k_), 1, item_prefix='%s%d.' % (pre, k_)) for k_ in range(cnt)]
            new_i = lambda pre: [B.item('%s%d' % (pre, k_), 'x') for k_ in range(cnt)]
            cases += [('EAStoryMove', dict(ids=sel, target=tgt)), ('EAStoryMove', dict(ids=sel, target=B.BLANK)),
                      ('roStoryDelete', dict(ids=sel)), ('EAStoryDelete', dict(ids=sel)),
                      ('roStoryInsert', dict(target=tgt, carried=new_s('MI'))), ('EAStoryInsert', dict(target=tgt, carried=new_s('ME'))),
                      ('roStoryAppend', dict(carried=new_s('MA'))), ('roStoryReplace', dict(target=tgt, carried=new_s('MR'))),
                      ('roItemMoveMultiple', dict(story_ref='BIG', ids=isel, target=itgt)),
                      ('EAItemMove', dict(story_ref='BIG', ids=isel, target=itgt)),
                      ('EAItemMove', dict(story_ref='BIG', ids=isel, target=B.BLANK)),
                      ('roItemDelete', dict(story_ref='BIG', ids=isel)), ('EAItemDelete', dict(story_ref='BIG', ids=isel)),
                      ('roItemInsert', dict(story_ref='BIG', target=itgt, carried=new_i('mi'))),
                      ('EAItemInsert', dict(story_ref='BIG', target=itgt, carried=new_i('me'))),
                      ('roItemReplace', dict(story_ref='BIG', target=itgt, carried=new_i('mr')))]
            s.hist['many_operand_messages'] += 16
        for kind, kw in cases:
            run_case(s, ro_txt, kind, kw, ctx={'huge': i})
        s.hist['huge_transitions'] += len(cases)


# --------------------------------------------------------------------------
# through the command line and back: `mosromgr merge -f ... -o FILE` into a path
# that already holds an older, longer result; the file is then read back with
# the library.  Returns (rc, reread|None, library_text|None).

def cli_roundtrip(s, docs, tmpdir, tag, non_strict=True, incomplete=True):
    import contextlib
    import io
    import os
    import warnings as W
    from .. import events as EV
    import mosromgr.cli as cli
    import mosromgr.moscollection as mcmod
    paths = []
    for k, d in enumerate(docs):
        p = os.path.join(tmpdir, '%s-in%02d.mos.xml' % (tag, k))
        with open(p, 'wb') as f:
            f.write(d.encode('utf-8'))
        paths.append(p)
    # the output file is whatever the caller names: with or without an extension
    ext = ['.xml', '', '.mos.xml', '.2021-01-01', '.txt'][sum(map(ord, tag)) % 5]
    out = os.path.join(tmpdir, '%s-out%s' % (tag, ext))
    with open(out, 'wb') as f:
        f.write(('<mos>' + '<old>previous, longer result</old>' * 3000 + '</mos>\n').encode())
    lib = None
    EV.STATE['quiet'] = EV.STATE.get('quiet', 0) + 1
    try:
        with W.catch_warnings():
            W.simplefilter('ignore')
            try:
                mc = mcmod.MosCollection.from_files(paths, allow_incomplete=incomplete)
                mc.merge(strict=not non_strict)
                lib = mc
            except Exception:
                lib = None
    finally:
        EV.STATE['quiet'] -= 1
    EV.drain()
    argv = ['merge', '-f'] + paths + ['-o', out] + (['-n'] if non_strict else []) + (['-i'] if incomplete else [])
    o, e = io.StringIO(), io.StringIO()
    with contextlib.redirect_stdout(o), contextlib.redirect_stderr(e):
        try:
            rc = cli.main(argv)
        except SystemExit as ex:
            rc = ex.code
    EV.drain()
    reread = None
    EV.STATE['quiet'] = EV.STATE.get('quiet', 0) + 1
    try:
        try:
            reread = s.mt.MosFile.from_file(out)
        except Exception as ex:
            reread = ex
    finally:
        EV.STATE['quiet'] -= 1
    for p in paths + [out]:
        try:
            os.unlink(p)
        except OSError:
            pass
    s.hist['cli_roundtrips'] += 1
    return rc, reread, lib, argv


# --------------------------------------------------------------------------
# hostile callers and a failing environment (seeding round 14): the same small, order-sensitive collection
# handed over in every way a caller may legitimately hand it over, and with the environment failing part-way.
# Oracle: the one-by-one fold; an environment failure leaves as ITSELF (not as a merge error, not as success),
# with nothing after it merged.

def _hc_docs(rng, idx):
    ro_txt = gen.grid_ro(['A', 'B', 'C'], 'none', pretty=False)
    docs = [ro_txt,
            B.msg_doc('roStoryAppend', 10, carried=[gen.simple_story('D%d' % idx, 1)]),
            B.msg_doc('roStoryMove', 20, ids=['C'], target='A'),
            B.msg_doc('roItemInsert', 30, story_ref='B', target=B.BLANK, carried=[B.item('n%d' % idx, 'new')]),
            B.msg_doc('roStorySend', 40, story_ref='A', body=[B.E('p', 'script line %d' % idx)], fields=[B.E('storySlug', 'sent'), 'BODY']),
            B.msg_doc('roStoryDelete', 50, ids=['B'] if idx % 2 else ['C']),
            B.msg_doc('roDelete', 90)]
    return docs


def hostile_callers(s, n=12):
    import collections
    import os
    import shutil
    import tempfile
    import mosromgr.moscollection as mcmod
    from .. import events as EV
    MosFile = s.mt.MosFile
    tmp = tempfile.mkdtemp(prefix='verif-callers-')
    cwd = os.getcwd()

    def report(kind, det, docs, scenario):
        s.custom_violation(kind, dict(det, scenario=scenario), {'type': 'hostile-caller', 'scenario': scenario, 'docs': docs},
                           status=scenario)

    def merged(mc, strict=False):
        err, _w = merge_collection(s, mc, strict)
        EV.drain()
        return err
    try:
        for i in range(n):
            if not s.mine(i):
                continue
            rng = s.rng('callers', i)
            docs = _hc_docs(rng, i)
            fold_text, n_failed, ferr, applied = hand_fold(s, docs, False)
            EV.drain()
            s.hist['hostile_caller_rounds'] += 1
            EV.STATE['quiet'] = EV.STATE.get('quiet', 0) + 1
            try:
                # (a) a collection built from the caller's own list of readers; the caller goes on using the list
                for what in ('clear', 'append-foreign', 'reverse'):
                    readers = sorted(mcmod.MosReader.from_string(d) for d in rng.sample(docs, len(docs)))
                    mc = mcmod.MosCollection(readers, allow_incomplete=True)
                    if what == 'clear':
                        readers.clear()
                    elif what == 'reverse':
                        readers.reverse()
                    else:
                        readers.append(mcmod.MosReader.from_string(
                            B.msg_doc('roStoryDelete', 15, ids=['A']).replace('<roID>RO</roID>', '<roID>OTHER</roID>')))
                    err = merged(mc)
                    s.evaluations += 1
                    s.note_sig(('caller', 'reader-list-' + what, str(mc) == fold_text))
                    if err is not None or str(mc) != fold_text:
                        report('collection-follows-the-callers-list-after-construction',
                               {'then': what, 'exc': type(err).__name__ if err else None}, docs, 'reader-list-' + what)
                # (b) from_strings over a list the caller sorts / clears afterwards; (c) other sequence types
                for what in ('sort', 'reverse', 'clear', 'tuple', 'dict-view', 'deque', 'set'):
                    seq = rng.sample(docs, len(docs))
                    arg = {'tuple': tuple(seq), 'dict-view': dict.fromkeys(seq).keys(), 'deque': collections.deque(seq),
                           'set': set(seq)}.get(what, seq)
                    try:
                        mc = mcmod.MosCollection.from_strings(arg, allow_incomplete=True)
                        if what == 'sort':
                            seq.sort()
                        elif what == 'reverse':
                            seq.reverse()
                        elif what == 'clear':
                            seq.clear()
                        err = merged(mc)
                        got = str(mc)
                    except Exception as e:
                        err, got = e, None
                    s.evaluations += 1
                    s.note_sig(('caller', 'strings-' + what, got == fold_text))
                    if err is not None or got != fold_text:
                        report('collection-depends-on-how-the-documents-were-handed-over',
                               {'how': what, 'exc': type(err).__name__ if err else None, 'msg': str(err)[:120] if err else None},
                               docs, 'strings-' + what)
                # (d) document types: bytearray / memoryview / keyword arguments
                d0 = docs[3]
                want = str(MosFile.from_string(d0))
                path = os.path.join(tmp, 'kw-%d.mos.xml' % i)
                with open(path, 'w', encoding='utf-8') as f:
                    f.write(d0)
                for what, fn in (('bytearray', lambda: MosFile.from_string(bytearray(d0.encode('utf-8')))),
                                 ('memoryview', lambda: MosFile.from_string(memoryview(d0.encode('utf-8')))),
                                 ('keyword-string', lambda: MosFile.from_string(mos_xml_string=d0)),
                                 ('keyword-path', lambda: MosFile.from_file(mos_file_path=path)),
                                 ('keyword-strings', lambda: mcmod.MosCollection.from_strings(mos_file_strings=list(docs), allow_incomplete=True).ro),
                                 ('keyword-files', lambda: mcmod.MosCollection.from_files(mos_file_paths=_hc_paths(tmp, i, docs), allow_incomplete=True).ro)):
                    try:
                        got = str(fn())
                        err = None
                    except Exception as e:
                        got, err = None, e
                    ok = err is None and (got == want or what in ('keyword-strings', 'keyword-files'))
                    s.evaluations += 1
                    s.note_sig(('caller', what, ok))
                    if not ok:
                        report('documented-argument-form-refused-or-read-differently',
                               {'form': what, 'exc': type(err).__name__ if err else None, 'msg': str(err)[:120] if err else None},
                               docs, what)
                # malformed bytes are invalid XML from bytes as from str
                for bad in (b'<mos><roCreate>', bytearray(b'not xml')):
                    try:
                        MosFile.from_string(bad)
                        ename = 'returned'
                    except Exception as e:
                        ename = type(e).__name__
                    s.evaluations += 1
                    if ename != 'MosInvalidXML':
                        report('documented-argument-form-refused-or-read-differently',
                               {'form': 'malformed ' + type(bad).__name__, 'exc': ename}, docs, 'malformed-bytes')
                # (e) a source that fails between construction and merge
                for what in ('vanished', 'directory', 'emptied'):
                    for strict in (True, False):
                        paths = _hc_paths(tmp, i, docs)
                        mc = mcmod.MosCollection.from_files(paths, allow_incomplete=True)
                        k = 3        # the roItemInsert (message ID 30)
                        os.unlink(paths[k])
                        if what == 'directory':
                            os.makedirs(paths[k])
                        elif what == 'emptied':
                            open(paths[k], 'w').close()
                        err = merged(mc, strict)
                        if what == 'directory':
                            os.rmdir(paths[k])
                        before_k, _nf, _fe, _ap = hand_fold(s, docs[:k], False)
                        EV.drain()
                        names = [c.__name__ for c in type(err).__mro__] if err is not None else []
                        ok = err is not None and 'MosMergeError' not in names and str(mc) == before_k and not mc.completed
                        s.evaluations += 1
                        s.note_sig(('environment', 'file-' + what, strict, names[:1], ok))
                        if not ok:
                            report('environment-failure-during-merge-not-reported-as-itself',
                                   {'what': 'message file ' + what + ' after the collection was built', 'strict': strict,
                                    'exc': names[:2], 'completed': bool(mc.completed),
                                    'holds_exactly_the_earlier_messages': str(mc) == before_k}, docs, 'file-' + what)
                # (e2) a path in the list that cannot be opened when the collection is built: whatever allow_incomplete says
                # (it is about a missing roDelete), the constructor fails with the system's error - it does not go on without
                # that message
                for what in ('vanished', 'directory'):
                    for ai in (True, False):
                        paths = _hc_paths(tmp, i, docs)
                        k = 2
                        os.unlink(paths[k])
                        if what == 'directory':
                            os.makedirs(paths[k])
                        try:
                            mc = mcmod.MosCollection.from_files(rng.sample(paths, len(paths)), allow_incomplete=ai)
                            err = None
                        except Exception as e:
                            mc, err = None, e
                        if what == 'directory':
                            os.rmdir(paths[k])
                        names = [c.__name__ for c in type(err).__mro__] if err is not None else []
                        ok = err is not None and 'OSError' in names
                        s.evaluations += 1
                        s.note_sig(('environment', 'listed-path-' + what, ai, names[:1], ok))
                        if not ok:
                            report('environment-failure-while-building-a-collection-not-reported-as-itself',
                                   {'what': 'a listed path is ' + what, 'allow_incomplete': ai,
                                    'exc': names[:2] or 'a collection was built'}, docs, 'listed-path-' + what)
                # (f) the roCreate was read when the collection was built: what happens to its file later is irrelevant
                paths = _hc_paths(tmp, i, docs)
                os.chdir(tmp)
                rel = [os.path.relpath(p_) for p_ in paths]
                mc = mcmod.MosCollection.from_files(rel, allow_incomplete=True)
                os.unlink(paths[0])
                os.chdir(cwd)
                try:
                    got = (mc.ro_id, str(mc.ro))
                    err = None
                except Exception as e:
                    got, err = None, e
                s.evaluations += 1
                if err is not None or got != ('RO', str(MosFile.from_string(docs[0]))):
                    report('collection-does-not-hold-the-roCreate-it-validated',
                           {'exc': type(err).__name__ if err else None}, docs, 'roCreate-file-removed-after-construction')
                # (g) S3: an empty body on one key; a GET that fails; a listing that fails on its second page
                f3 = ensure_fake_s3()
                for what in ('empty-body', 'whitespace-body', 'get-fails', 'second-read-of-roCreate-fails', 'page-2-fails'):
                    bucket = 'hc-%d-%s' % (i, what)
                    f3.BUCKETS.pop(bucket, None)
                    for k_, d_ in enumerate(docs):
                        body = d_
                        if k_ == 2 and what == 'empty-body':
                            body = ''
                        if k_ == 2 and what == 'whitespace-body':
                            body = '\n'
                        f3.put(bucket, 'p/%02d.mos.xml' % k_, body)
                    f3.CONFIG['page_size'] = 3
                    f3.FAIL['page'] = 2 if what == 'page-2-fails' else None
                    f3.FAIL['get'] = 4 if what == 'get-fails' else (len(docs) + 1 if what == 'second-read-of-roCreate-fails' else None)
                    try:
                        mc = mcmod.MosCollection.from_s3(bucket_name=bucket, prefix='p/', allow_incomplete=True)
                        err = None
                    except Exception as e:
                        mc, err = None, e
                    finally:
                        f3.FAIL['page'] = f3.FAIL['get'] = None
                    names = [c.__name__ for c in type(err).__mro__] if err is not None else []
                    want_exc = {'empty-body': 'MosInvalidXML', 'whitespace-body': 'MosInvalidXML', 'get-fails': 'ConnectionResetError',
                                'second-read-of-roCreate-fails': 'ConnectionResetError', 'page-2-fails': None}[what]
                    ok = err is not None and (want_exc in names if want_exc else 'InvalidMosCollection' not in names and 'MosRoMgrException' not in names)
                    s.evaluations += 1
                    s.note_sig(('environment', 's3-' + what, names[:1], ok))
                    if not ok:
                        report('environment-failure-while-building-a-collection-not-reported-as-itself',
                               {'what': what, 'exc': names[:2] or 'a collection was built', 'msg': str(err)[:120] if err else None},
                               docs, 's3-' + what)
            finally:
                EV.STATE['quiet'] -= 1
                os.chdir(cwd)
    finally:
        os.chdir(cwd)
        shutil.rmtree(tmp, ignore_errors=True)


import contextlib


@contextlib.contextmanager
def failing_log_handler():
    """The host's log handler fails on every record (a full disk, a closed socket) - for the duration of the block."""
    import logging

    class Failing(logging.Handler):
        def emit(self, record):
            raise OSError(28, 'No space left on device (injected by the verification workload)')
    lg = logging.getLogger('mosromgr')
    h = Failing(level=logging.DEBUG)
    old = (lg.level, lg.disabled, logging.root.manager.disable)
    lg.addHandler(h)
    lg.setLevel(logging.DEBUG)
    lg.disabled = False
    logging.disable(logging.NOTSET)
    try:
        yield
    finally:
        lg.removeHandler(h)
        lg.setLevel(old[0])
        lg.disabled = old[1]
        logging.disable(old[2])


def _hc_paths(tmp, i, docs):
    import os
    d = os.path.join(tmp, 'c%d' % i)
    os.makedirs(d, exist_ok=True)
    paths = []
    for k, txt in enumerate(docs):
        p = os.path.join(d, 'm%02d.mos.xml' % k)
        if os.path.isdir(p):
            os.rmdir(p)
        with open(p, 'w', encoding='utf-8') as f:
            f.write(txt)
        paths.append(p)
    return paths
