"""C07 - completion by roDelete is faithful, terminal and survives a round trip."""
import warnings as W

from .. import build as B
from .. import events as EV
from .. import gen
from ..build import E
from ..canon import Abs
from ..spec import Dev
from . import common as K

META = {
    'rule': ('Histories prefix . roDelete . suffix: a random prefix of messages of all kinds, the roDelete, then one '
             'message of EACH of the 24 kinds plus a second roDelete and a roCreate; directly with +, and through '
             'strict and non-strict collections; plus histories that never receive a roDelete but whose content '
             'carries elements named mosromgrmeta / roDelete nested in stories and metadata (must never report '
             'completed). At every add the monitor checks: completed pre-state => MosCompletedMergeError and byte-'
             'identical state; roDelete => completed, envelope and roCreate canon unchanged, exactly one record '
             'equal to the sent roDelete; every post-state is re-read from str(ro): class RunningOrder, same '
             'completed flag. Signature = (phase, message kind, outcome) + transition signatures.'),
    'workers': {'quick': 12, 'thorough': 16},
    'watchdog': {'quick': 600, 'thorough': 3600},
}


def suffix_all_kinds(s, ro, cur, rng, ids, pool, hidx):
    state = Abs(cur)
    kinds = list(B.ALL_KINDS)
    rng.shuffle(kinds)
    # every third history refuses under the interpreter's "-W error" treatment of
    # DeprecationWarning: the refusal must still be MosCompletedMergeError
    werr = DeprecationWarning if hidx % 3 == 0 else None
    for k, kind in enumerate(kinds):
        msg = gen.rand_message(rng, state, kind, 500 + k, ids, pool=pool, other_ro=0.15)
        r_ = rng.random()
        if r_ < 0.2:
            # envelope without a usable messageID: the refusal must not depend on it
            import re as _re
            msg = _re.sub(r'<messageID>[^<]*</messageID>', rng.choice(['', '<messageID/>', '<messageID>abc</messageID>']), msg, 1)
        ro, err, v, ev = s.step(ro, msg, {'history': hidx, 'phase': 'after-roDelete',
                                          'DeprecationWarning-as-error': werr is not None}, error_on=werr)
        s.note_sig(('after-end', kind, type(err).__name__ if err else 'accepted', werr is not None))
    # a second roCreate too
    msg = gen.rand_ro(rng, n_stories=1, pool=pool, message_id=900)
    ro, err, v, ev = s.step(ro, msg, {'history': hidx, 'phase': 'after-roDelete'})
    s.note_sig(('after-end', 'roCreate', type(err).__name__ if err else 'accepted'))
    return ro


def history(s, hidx):
    rng = s.rng('hist', hidx)
    pool = gen.text_pool('plain') + ['mosromgrmeta', 'roDelete']
    ids = gen.Ids('H%d.' % hidx)
    hostile = rng.random() < 0.5
    ro_txt = gen.rand_ro(rng, n_stories=rng.randint(0, 5), pool=pool)
    if hostile:
        # content that merely *contains* completion-looking elements, never at the root
        ro_txt = ro_txt.replace('</roSlug>', '</roSlug><mosExternalMetadata><mosSchema>http://x</mosSchema>'
                                '<mosPayload><mosromgrmeta><roDelete><roID>RO</roID></roDelete></mosromgrmeta>'
                                '</mosPayload></mosExternalMetadata>', 1)
    fragile = rng.random() < 0.3
    if fragile:
        # content the read accessors stumble over (no slug, a story without an ID, a duration that is not
        # a number): completing the running order does not depend on any of it
        import re
        c = rng.random()
        if c < 0.35:
            ro_txt = re.sub(r'<roSlug>[^<]*</roSlug>|<roSlug\s*/>', '', ro_txt, count=1)
        elif c < 0.7:
            ro_txt = ro_txt.replace('</roCreate>', '<story><storySlug>no id</storySlug><item><itemID>q</itemID></item></story></roCreate>', 1)
        else:
            ro_txt = ro_txt.replace('</roCreate>', '<story><storyID>odd-timing</storyID><mosExternalMetadata><mosSchema>http://t</mosSchema>'
                                    '<mosPayload><StoryDuration>soon</StoryDuration><TextTime/></mosPayload></mosExternalMetadata></story></roCreate>', 1)
        s.hist['fragile_histories'] += 1
    ro = s.load(ro_txt)
    cur = ro_txt
    w = K.kind_weights(1, 1, 0.5, 0.0)
    for k in range(rng.randint(0, 12) if not fragile else rng.randint(0, 3)):
        state = Abs(cur)
        kind = K.weighted_kinds(rng, w)
        msg = gen.rand_message(rng, state, kind, 100 + k, ids, pool=pool)
        if hostile and kind in ('roStoryAppend', 'roStoryInsert') and rng.random() < 0.5:
            msg = msg.replace('</storyID>', '</storyID><mosromgrmeta><roDelete/></mosromgrmeta>', 1)
        ro, err, v, ev = s.step(ro, msg, {'history': hidx, 'phase': 'prefix'})
        if ev is not None and ev.get('post_xml'):
            cur = ev['post_xml']
        # never completed without roDelete
        if ro.completed:
            s.custom_violation('completed-without-roDelete', {'after_kind': kind},
                               {'type': 'transition', 'pre_xml': ev['pre_xml'], 'msg_xml': ev['msg_xml']}
                               if ev else {}, msg_kind=kind)
    if rng.random() < 0.3:
        typed_misuse(s, ro, cur, rng, ids, pool)
    if rng.random() < 0.15:
        return      # a history that never ends
    # the roDelete may be addressed to another running-order ID: it completes this one all the same
    env_ = {'mos_id': None, 'ncs_id': 'NCS'} if rng.random() < 0.3 else {}      # the roDelete envelope may lack <mosID>
    msg = B.msg_doc('roDelete', 400, ro_id=('RO' if rng.random() < 0.7 else 'ANOTHER RO'), pretty=rng.random() < 0.5, **env_)
    if rng.random() < 0.12:
        # ... or lack its messageID element altogether
        import re
        msg = re.sub(r'\s*<messageID>[^<]*</messageID>', '', msg, count=1)
        s.hist['roDelete_without_messageID'] += 1
    ro, err, v, ev = s.step(ro, msg, {'history': hidx, 'phase': 'roDelete'})
    if ev is not None and ev.get('post_xml'):
        cur = ev['post_xml']
    s.note_sig(('end', 'hostile' if hostile else 'plain', len(Abs(cur).story_ids) > 0, err is None))
    if not ro.completed:
        s.custom_violation('roDelete-did-not-complete', {}, {'type': 'transition', 'pre_xml': ev['pre_xml'],
                                                             'msg_xml': ev['msg_xml']} if ev else {})
    suffix_all_kinds(s, ro, cur, rng, ids, pool, hidx)


def typed_misuse(s, ro, cur, rng, ids, pool):
    """A RunningOrderEnd object built by its typed constructor from a document that holds no roDelete:
    neither `ro + m` nor `m.merge(ro)` may leave the running order completed (it received no roDelete)."""
    kind = K.weighted_kinds(rng, K.kind_weights(1, 1, 0.5, 0.0))
    doc = gen.rand_message(rng, Abs(cur), kind, 350, ids, pool=pool)
    how = rng.choice(['add', 'merge'])
    judge_typed_misuse(s, cur, doc, how)


def judge_typed_misuse(s, cur, doc, how):
    import warnings as Wn
    EV.STATE['quiet'] = EV.STATE.get('quiet', 0) + 1
    try:
        try:
            ro = s.mt.RunningOrder.from_string(cur)
            m = s.mt.RunningOrderEnd.from_string(doc)
        except Exception:
            return
        before, err = str(ro), None
        with Wn.catch_warnings():
            Wn.simplefilter('ignore')
            try:
                if how == 'add':
                    ro + m
                else:
                    m.merge(ro)
            except Exception as e:
                err = e
        after, completed = str(ro), bool(ro.completed)
    finally:
        EV.STATE['quiet'] -= 1
        EV.drain()
    s.evaluations += 1
    s.note_sig(('typed-misuse', how, type(err).__name__ if err else 'ok', completed))
    s.hist['typed_misuse'] += 1
    if completed or after != before:
        s.custom_violation('completed-without-roDelete',
                           {'how': 'ro + RunningOrderEnd.from_string(doc)' if how == 'add' else 'RunningOrderEnd.from_string(doc).merge(ro)',
                            'exc': type(err).__name__ if err else None, 'completed': completed, 'changed': after != before},
                           {'type': 'typed-misuse', 'ro_txt': cur, 'doc': doc, 'how': how}, msg_kind='RunningOrderEnd', status=how)


def completed_base(s, cidx):
    """A collection whose "roCreate" is a completed running order that was written out, plus further
    messages - a roDelete among them: it can be built (one roDelete message), and merging it adds every
    message to a completed running order."""
    rng = s.rng('cbase', cidx)
    pool = gen.text_pool('plain')
    ids = gen.Ids('B%d.' % cidx)
    ro_txt = gen.rand_ro(rng, n_stories=rng.randint(1, 4), pool=pool, message_id=1)
    base = s.load(ro_txt)
    base, _e, _w = s.add(base, s.load(B.msg_doc('roDelete', 2)))
    EV.drain()
    docs = [str(base)]
    state = Abs(ro_txt)
    for k in range(rng.randint(0, 3)):
        docs.append(gen.rand_message(rng, state, K.weighted_kinds(rng, K.kind_weights(1, 1, 0.3, 0)), 10 + k, ids, pool=pool))
    docs.append(B.msg_doc('roDelete', 50))
    rng.shuffle(docs)
    judge_completed_base(s, docs, rng.choice(['strings', 'files']))


def judge_completed_base(s, docs, how):
    import shutil
    import tempfile
    tmpdir = tempfile.mkdtemp(prefix='verif-c07-')
    try:
        for strict in (True, False):
            for inc in (False, True):
                mc, cerr = K.make_collection(s, docs, how, inc, tmpdir)
                s.evaluations += 1
                wit = {'type': 'completed-base', 'docs': docs, 'how': how}
                if mc is None:
                    # whether such a list is accepted is C11's claim (checked there); nothing to merge here
                    s.note_sig(('completed-base', how, strict, inc, 'rejected:' + type(cerr).__name__))
                    s.hist['completed_base_rejected'] += 1
                    continue
                s.hist['completed_base_merged'] += 1
                before = str(mc)
                err, wn = K.merge_collection(s, mc, strict)
                EV.drain()
                n = wn.count('MosMergeNonStrictWarning')
                s.note_sig(('completed-base', how, strict, inc, type(err).__name__ if err else 'ok', min(n, 5)))
                det = {'strict': strict, 'exc': type(err).__name__ if err else None, 'non_strict_warnings': n,
                       'readers': len(mc.mos_readers)}
                if str(mc) != before or not mc.completed:
                    s.custom_violation('merge-changed-a-completed-collection', det, wit, status='completed-base')
                if strict and (err is None or 'MosCompletedMergeError' not in [c.__name__ for c in type(err).__mro__]):
                    s.custom_violation('strict-merge-into-completed-running-order-not-refused', det, wit, status='completed-base')
                if not strict and (err is not None or n != len(mc.mos_readers)):
                    s.custom_violation('non-strict-merge-did-not-report-every-message', det, wit, status='completed-base')
    finally:
        shutil.rmtree(tmpdir, ignore_errors=True)


def collection_history(s, cidx):
    """prefix . roDelete . suffix through MosCollection, strict and non-strict."""
    rng = s.rng('coll', cidx)
    pool = gen.text_pool('plain')
    ids = gen.Ids('Q%d.' % cidx)
    ro_txt = gen.rand_ro(rng, n_stories=rng.randint(1, 4), pool=pool, message_id=1)
    state = Abs(ro_txt)
    docs = [ro_txt]
    n_pre = rng.randint(0, 4)
    for k in range(n_pre):
        docs.append(gen.rand_message(rng, state, K.weighted_kinds(rng, K.kind_weights(1, 1, 0.3, 0)),
                                     10 + k, ids, pool=pool))
    docs.append(B.msg_doc('roDelete', 50))
    n_post = rng.randint(1, 4)
    for k in range(n_post):
        docs.append(gen.rand_message(rng, state, K.weighted_kinds(rng, K.kind_weights(1, 1, 0.3, 0)),
                                     60 + k, ids, pool=pool))
    rng.shuffle(docs)
    judge_collection(s, docs, n_post, cidx, [rng.random() < 0.5, rng.random() < 0.5])


def judge_collection(s, docs, n_post, cidx, again_plan):
    # before any merge: the collection holds a roDelete but its running order has not received it
    mc0, e0 = K.make_collection(s, docs, 'strings', False)
    if mc0 is not None:
        s.evaluations += 1
        s.note_sig(('collection-completed-before-merge', bool(mc0.completed)))
        if bool(mc0.completed) != bool(Abs(str(mc0)).completed):
            s.custom_violation('collection-reports-completed-before-the-roDelete-was-merged',
                               {'mc.completed': bool(mc0.completed)}, {'type': 'collection', 'docs': docs, 'strict': True},
                               status='before-merge')
    for strict in (True, False):
        mc, cerr, merr, wl = K.collection_merge(s, docs, strict, allow_incomplete=False,
                                                ctx={'collection': cidx, 'strict': strict})
        if mc is not None and bool(mc.completed) != bool(Abs(str(mc)).completed):
            s.custom_violation('collection-completed-flag-disagrees-with-its-running-order',
                               {'mc.completed': bool(mc.completed), 'strict': strict,
                                'merge_exc': type(merr).__name__ if merr else None},
                               {'type': 'collection', 'docs': docs, 'strict': strict}, status='after-merge')
        if mc is None:
            s.hist['collection_rejected'] += 1
            continue
        n_ns = sum(1 for w in wl if type(w.message).__name__ == 'MosMergeNonStrictWarning')
        s.note_sig(('collection', strict, n_post, type(merr).__name__ if merr else 'ok', min(n_ns, 5)))
        wit = {'type': 'collection', 'docs': docs, 'strict': strict, 'n_post': n_post, 'again_plan': again_plan}
        if strict:
            if merr is None or 'MosCompletedMergeError' not in [c.__name__ for c in type(merr).__mro__]:
                # an earlier (pre-roDelete) message may legitimately fail first
                if merr is None:
                    s.custom_violation('strict-collection-accepted-messages-after-roDelete',
                                       {'n_post': n_post}, wit, status='strict')
            elif merr is not None and not mc.completed:
                # the refusal says "completed": it can only come from a running order that has received its roDelete
                s.custom_violation('completed-merge-error-from-a-running-order-that-is-not-completed',
                                   {'n_post': n_post, 'msg': str(merr)[:120]}, wit, status='strict')
        else:
            if merr is not None:
                s.custom_violation('non-strict-collection-merge-raised',
                                   {'exc': type(merr).__name__}, wit, status='non-strict')
            elif n_ns < n_post:
                s.custom_violation('post-roDelete-message-not-reported',
                                   {'n_post': n_post, 'non_strict_warnings': n_ns}, wit, status='non-strict')
        if mc is not None and merr is None and not mc.completed:
            s.custom_violation('collection-not-completed-after-roDelete', {}, wit)
        if mc is not None and mc.completed:
            # completion is terminal for the collection too: merging it again adds every message to a
            # completed running order - refused (strict) or reported one by one (non-strict), nothing changes
            before = str(mc)
            again_strict = again_plan[0 if strict else 1]
            err2, wn2 = K.merge_collection(s, mc, again_strict)
            EV.drain()
            s.evaluations += 1
            n2 = sum(1 for x in wn2 if x == 'MosMergeNonStrictWarning')
            s.note_sig(('collection-merged-again', strict, again_strict, type(err2).__name__ if err2 else 'ok', min(n2, 5)))
            det2 = {'first_strict': strict, 'second_strict': again_strict, 'exc': type(err2).__name__ if err2 else None,
                    'non_strict_warnings': n2, 'readers': len(mc.mos_readers)}
            wit2 = dict(wit, again=again_strict)
            if str(mc) != before or not mc.completed:
                s.custom_violation('second-merge-changed-a-completed-collection', det2, wit2, status='again')
            if again_strict and (err2 is None or 'MosCompletedMergeError' not in [c.__name__ for c in type(err2).__mro__]):
                s.custom_violation('second-strict-merge-of-completed-collection-not-refused', det2, wit2, status='again')
            if not again_strict and (err2 is not None or n2 != len(mc.mos_readers)):
                s.custom_violation('second-non-strict-merge-did-not-report-every-message', det2, wit2, status='again')


def cli_history(s, i, tmpdir):
    rng = s.rng('cli', i)
    pool = gen.text_pool('plain')
    ids = gen.Ids('W%d.' % i)
    ro_txt = gen.rand_ro(rng, n_stories=rng.randint(0, 4), pool=pool, message_id=1)
    state = Abs(ro_txt)
    docs = [ro_txt]
    for k in range(rng.randint(0, 5)):
        docs.append(gen.rand_message(rng, state, K.weighted_kinds(rng, K.kind_weights(1, 1, 0.3, 0)), 10 + k, ids, pool=pool))
    ended = rng.random() < 0.8
    if ended:
        docs.append(B.msg_doc('roDelete', 50))
    judge_cli(s, docs, ended, tmpdir, 'c07-%d' % i)


def judge_cli(s, docs, ended, tmpdir, tag):
    rc, reread, lib, argv = K.cli_roundtrip(s, docs, tmpdir, tag)
    s.evaluations += 1
    s.note_sig(('cli-roundtrip', ended, type(reread).__name__, rc))
    if lib is None:
        return
    wit = {'type': 'cli-roundtrip', 'docs': docs, 'ended': ended}
    if isinstance(reread, Exception) or type(reread).__name__ != 'RunningOrder':
        s.custom_violation('running-order-written-by-cli-does-not-read-back',
                           {'got': type(reread).__name__, 'msg': str(reread)[:150], 'completed': ended}, wit, status='cli')
    elif bool(reread.completed) != bool(lib.completed) or str(reread) != str(lib):
        s.custom_violation('completed-flag-or-content-lost-through-cli-file',
                           {'file_completed': bool(reread.completed), 'library_completed': bool(lib.completed)}, wit, status='cli')


def run(s):
    K.hostile_callers(s)
    K.suite_workload(s)
    import shutil
    import tempfile
    tmpdir = tempfile.mkdtemp(prefix='verif-c07-')
    try:
        for i in range(40 if s.tier == 'quick' else 1500):
            if s.mine(i):
                cli_history(s, i, tmpdir)
    finally:
        shutil.rmtree(tmpdir, ignore_errors=True)
    q = s.tier == 'quick'
    for h in range(200 if q else 12000):
        if s.mine(h):
            history(s, h)
    for c in range(150 if q else 5000):
        if s.mine(c):
            collection_history(s, c)
    for c in range(40 if q else 1500):
        if s.mine(c):
            completed_base(s, c)


def replay(s, data):
    w = data['witness']
    if w.get('type') == 'collection':
        judge_collection(s, w['docs'], w.get('n_post', 0), 0, w.get('again_plan', [True, False]))
        return
    if w.get('type') == 'typed-misuse':
        return judge_typed_misuse(s, w['ro_txt'], w['doc'], w['how'])
    if w.get('type') == 'completed-base':
        return judge_completed_base(s, w['docs'], w['how'])
    if w.get('type') == 'cli-roundtrip':
        import shutil, tempfile
        tmpdir = tempfile.mkdtemp(prefix='verif-c07-')
        try:
            judge_cli(s, w['docs'], w['ended'], tmpdir, 'replay')
        finally:
            shutil.rmtree(tmpdir, ignore_errors=True)
        return
    K.replay_transition(s, data)


def gates(agg, tier):
    r = []
    for k in list(B.ALL_KINDS) + ['roCreate']:
        K.need(agg, r, K.sig_has(agg, "'after-end', '%s'" % k), 'no %s added after completion' % k)
    K.need(agg, r, agg['hist'].get('outcome:raise:MosCompletedMergeError', 0) > 0, 'no refusal observed')
    K.need(agg, r, K.sig_has(agg, "'collection', True"), 'no strict collection observed')
    K.need(agg, r, K.sig_has(agg, "'collection', False"), 'no non-strict collection observed')
    K.need(agg, r, agg['hist'].get('state_checks', 0) > 0, 'state round-trip facts never recorded')
    K.need(agg, r, agg['hist'].get('completed_base_merged', 0) > 0, 'no collection over a completed running order was merged')
    return r
