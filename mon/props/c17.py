"""C17 - script and body list the story text and items faithfully and in order."""
from .. import build as B
from .. import gen
from ..build import E
from . import common as K
from . import acc

META = {
    'rule': ('Stories with any interleaving of paragraphs, items and other elements; paragraphs that are empty, '
             'whitespace-only, (bracketed), <angle-bracketed>, half-bracketed "(" / ")" / "(x>" / "()", padded '
             '"  ( x )  ", Unicode, very long; roStorySend bodies; every state reached by histories over such stories. '
             'At every state Story.script / Story.body / RunningOrder.script / RunningOrder.body are read; icontract '
             'postconditions on the real properties compare with reference functions from the statement (body = every '
             'p as its text or "" and every item as an Item wrapping THAT element, document order; script = stripped '
             'non-blank paragraphs not wrapped in () or <>; running order = concatenation over stories in order). '
             'Paragraphs with inline child elements are outside the claim. Signature = (story count, timing, ..., '
             'paragraph and item counts, producing message kind).'),
    'workers': {'quick': 12, 'thorough': 16},
    'watchdog': {'quick': 600, 'thorough': 3600},
}


def para_story(rng, sid, pool):
    kids = []
    for _ in range(rng.randint(0, 9)):
        r = rng.random()
        if r < 0.55:
            t = rng.choice(pool)
            if rng.random() < 0.05:
                t = t * 400
            kids.append(E('p', t if t != '' or rng.random() < 0.5 else None))
        elif r < 0.85:
            kids.append(B.item('%s.%d' % (sid, len(kids)), rng.choice(pool)))
        else:
            kids.append(gen.rich_blob(rng, 1, pool, rng.choice(['pi', 'break', 'storyItem'])))
    return B.story(sid, 'slug', kids, timing_el=gen.rand_timing(rng, 'any'))


def run(s):
    K.hostile_callers(s)
    q = s.tier == 'quick'
    for k_, txt_ in enumerate(K.idless_states()):
        if s.mine(k_):
            acc.sweep(s, s.load(txt_), txt_, {'workload': 'id-less elements'})

    def on_pair_state(ro, cur, ev):
        acc.sweep(s, ro, cur, {'workload': 'pair-history'}, after=(ev or {}).get('msg_cls'))
    K.pair_histories(s, timing='any', text='notes', on_state=on_pair_state)
    pool = gen.text_pool('notes')
    n = 200 if q else 20000
    for i in range(n):
        if not s.mine(i):
            continue
        rng = s.rng('paras', i)
        stories = [para_story(rng, 'P%d' % k, pool) for k in range(rng.randint(0, 5))]
        txt = B.ro_doc('RO', 1, stories, pretty=rng.random() < 0.5)
        acc.sweep(s, s.load(txt), txt, {'paras': i}, after='initial')
    nh = 100 if q else 12000
    w = K.kind_weights(1.0, 0.6, 0.3, 0.0)
    w['roStorySend'] = 3.0
    for h in range(nh):
        if not s.mine(h):
            continue

        def on_state(ro, cur, ev, h=h):
            acc.sweep(s, ro, cur, {'history': h}, after=(ev or {}).get('msg_cls'))
        K.fuzz_history(s, h, w, steps=(3, 15), text='notes', timing='any', on_state=on_state, direct=0.25,
                       shape_weights=(0.95, 0.03, 0.02, 0.0), selfref=0.0)
    s.hist['fuzz_histories_total'] = nh


replay = acc.replay_state


def gates(agg, tier):
    r = []
    acc.acc_gates(agg, ['Story.script', 'Story.body', 'RunningOrder.script', 'RunningOrder.body'], r)
    K.need(agg, r, any("'StorySend'" in sg for sg in agg['sigs']), 'no state produced by roStorySend observed')
    return r
