"""C13 - merging depends only on content; message objects stay independent."""
from .. import build as B
from .. import gen
from ..build import BLANK, E
from ..canon import Abs, item_ids
from . import common as K

CARRYING = ('roStoryAppend', 'roStoryInsert', 'roStoryReplace', 'roStorySend', 'roItemInsert', 'roItemReplace',
            'roMetadataReplace', 'roReplace', 'roDelete', 'EAStoryInsert', 'EAStoryReplace', 'EAItemInsert',
            'EAItemReplace')

META = {
    'rule': ('For each of the 13 payload-carrying kinds, histories merge m -> edit the carried part with 1-4 later '
             'messages aimed at it (item delete / insert / replace / move / swap inside the carried story, re-send, '
             'story replace, metadata replace, roDelete) -> inspect and re-use m. Refuting observations, all '
             'behavioural: (a) str(m) differs right after the merge, (b) str(m) differs after later merges into the '
             'same running order, (c) merging the same object into a fresh running order gives a text different from '
             'merging a freshly parsed copy, (d) of two running orders that received the same message object, editing '
             'one changes the text of the other. The monitor also scans Element identities shared between message '
             'and running-order trees after every add; sharing is reported as a hazard count, never as a violation. '
             'Signature = (kind, observation a-d, number and kinds of follow-up edits, outcome).'),
    'workers': {'quick': 12, 'thorough': 16},
    'watchdog': {'quick': 600, 'thorough': 3600},
}


def followups(rng, state_txt, carried_story_ids, ids, pool, n):
    """Messages that edit inside / around the carried stories."""
    out = []
    st = Abs(state_txt)
    targets = [x for x in carried_story_ids if x in st.story_ids] or st.story_ids
    if not targets:
        return out
    for k in range(n):
        sid_ = rng.choice(targets)
        story = st.story(sid_)
        I = [i for i in item_ids(story) if i is not None] if story is not None else []
        new_item = lambda: gen.rand_item(rng, ids.new(), pool, False)
        choices = ['ins', 'send', 'sreplace', 'meta', 'eains']
        if I:
            choices += ['del', 'rep', 'eadel', 'earep'] * 2
        if len(I) >= 2:
            choices += ['swap', 'move', 'eamove'] * 2
        c = rng.choice(choices)
        if c == 'ins':
            out.append(('roItemInsert', dict(story_ref=sid_, target=BLANK, carried=[new_item()])))
        elif c == 'eains':
            out.append(('EAItemInsert', dict(story_ref=sid_, target=I[0] if I else BLANK, carried=[new_item()])))
        elif c == 'del':
            out.append(('roItemDelete', dict(story_ref=sid_, ids=[rng.choice(I)])))
        elif c == 'eadel':
            out.append(('EAItemDelete', dict(story_ref=sid_, ids=[rng.choice(I)])))
        elif c == 'rep':
            out.append(('roItemReplace', dict(story_ref=sid_, target=rng.choice(I), carried=[new_item()])))
        elif c == 'earep':
            out.append(('EAItemReplace', dict(story_ref=sid_, target=rng.choice(I), carried=[new_item()])))
        elif c == 'swap':
            a, b = rng.sample(I, 2)
            out.append(('EAItemSwap', dict(story_ref=sid_, ids=[a, b])))
        elif c == 'move':
            a, b = rng.sample(I, 2)
            out.append(('roItemMoveMultiple', dict(story_ref=sid_, ids=[a], target=b)))
        elif c == 'eamove':
            a, b = rng.sample(I, 2)
            out.append(('EAItemMove', dict(story_ref=sid_, ids=[a], target=BLANK)))
        elif c == 'send':
            out.append(('roStorySend', dict(story_ref=sid_, body=[E('p', 're-sent'), gen.rand_item(rng, ids.new(), pool, False, tag='storyItem')],
                                            fields=[E('storySlug', 're'), 'BODY'])))
        elif c == 'sreplace':
            out.append(('roStoryReplace', dict(target=sid_, carried=[gen.new_story_for(rng, sid_, pool, rich=False)])))
        elif c == 'meta':
            out.append(('roMetadataReplace', dict(carried=[E('roSlug', 'changed %d' % k)])))
    return out


def carried_story_ids(msg_txt):
    from ..spec import interpret
    from ..canon import sid
    from xml.etree import ElementTree as ET
    m = interpret(ET.fromstring(msg_txt))
    out = []
    if m.kind == 'roStorySend' and m.story_ref[0] == 'id':
        out.append(m.story_ref[1])
    if m.level == 'story':
        out += [sid(c) for c in m.carried]
    if m.level == 'item' and m.story_ref[0] == 'id':
        out.append(m.story_ref[1])
    if m.kind == 'roReplace':
        out += [sid(c) for c in m.carried if c.tag == 'story']
    return [x for x in out if x]


def apply_all(s, ro, state_txt, msgs, ctx, mid0=200):
    cur = state_txt
    for k, (kind, kw) in enumerate(msgs):
        txt = B.msg_doc(kind, mid0 + k, **kw)
        ro, err, v, ev = s.step(ro, txt, ctx)
        if ev is not None and ev.get('post_xml'):
            cur = ev['post_xml']
    return ro, cur


def message_object(s, msg_txt, via_reader):
    """The message as an object: parsed by the caller, or the object a MosReader hands out (what a caller
    gets who walks a collection's readers) - one is as good as the other."""
    m = s.load(msg_txt)
    if via_reader:
        import mosromgr.moscollection as mcmod
        m = mcmod.MosReader.from_string(msg_txt).mos_object
        s.hist['message_objects_from_a_reader'] += 1
    return m


def case(s, idx, kind):
    rng = s.rng('case', idx, kind)
    via_reader = idx % 3 == 1
    pool = gen.text_pool('plain')
    ids = gen.Ids('R%d.' % idx)
    ro_txt = gen.rand_ro(rng, n_stories=rng.randint(2, 5), pool=pool, pretty=rng.random() < 0.5)
    state = Abs(ro_txt)
    msg_txt = gen.rand_message(rng, state, kind, 50, ids, pool=pool, shape_weights=(1.0, 0, 0, 0), selfref=0,
                               pretty=rng.random() < 0.5)
    if kind == 'roItemInsert' or kind == 'EAItemInsert':
        pass
    ctx = {'case': idx, 'kind': kind}
    wit = {'type': 'c13', 'ro_txt': ro_txt, 'msg_txt': msg_txt, 'kind': kind, 'via_reader': via_reader}
    # --- (a) and (b)
    ro1 = s.load(ro_txt)
    m = message_object(s, msg_txt, via_reader)
    t0 = str(m)
    if idx % 4 == 2:
        # the documented method called directly - msg.merge(ro) - is the same operation as ro + msg
        import warnings as _W
        from .. import attach as _attach
        with _W.catch_warnings(record=True) as wl:
            _W.simplefilter('always')
            ro1, err = _attach.direct_merge(ro1, m)
        s.hist['first_merges_through_msg.merge'] += 1
    else:
        ro1, err, wl = s.add(ro1, m)
    judged = s.drain_and_judge(None, ctx)
    if err is not None:
        s.hist['c13_first_merge_failed'] += 1
        return
    cur = judged[-1][0]['post_xml'] if judged else ro_txt
    alias = judged[-1][0].get('alias') if judged else None
    if alias:
        s.hist['hazard:shared-elements-after-merge'] += 1
        s.hist['hazard:shared:' + kind] += 1
    if str(m) != t0:
        s.custom_violation('message-modified-by-merge', {'kind': kind}, wit, msg_kind=kind, status='a')
    carried = carried_story_ids(msg_txt)
    edits = [] if kind == 'roDelete' else followups(rng, cur, carried, ids, pool, rng.randint(1, 4))
    wit['edits'] = [(k, B.msg_doc(k, 300 + i, **kw)) for i, (k, kw) in enumerate(edits)]
    ro1, cur1 = apply_all(s, ro1, cur, edits, ctx)
    after_b = str(m)
    s.note_sig((kind, 'b', tuple(sorted({k for k, _ in edits})), after_b == t0))
    if s.hist['c13_samples'] < 2 and idx % 17 == 0:
        s.hist['c13_samples'] += 1
        s.samples.insert(0, {'carrying_kind': kind, 'follow_up_edits': [k for k, _ in edits],
                          'shared_elements_after_merge': len(alias or []),
                          'message_text_unchanged_after_edits': after_b == t0, 'message': msg_txt[:400]})
    if after_b != t0:
        s.custom_violation('message-changed-by-later-merges-into-the-running-order',
                           {'kind': kind, 'edits': [k for k, _ in edits]}, wit, msg_kind=kind, status='b')
    # --- (c) re-use of the same object vs a fresh parse
    ro2 = s.load(ro_txt)
    ro3 = s.load(ro_txt)
    ro2, e2, _ = s.add(ro2, m)
    ro3, e3, _ = s.add(ro3, s.load(msg_txt))
    s.drain_and_judge(None, ctx)
    same = (str(ro2) == str(ro3)) and ((e2 is None) == (e3 is None))
    s.note_sig((kind, 'c', same))
    s.evaluations += 1
    if not same:
        s.custom_violation('re-merge-of-same-object-differs-from-fresh-copy',
                           {'kind': kind, 'edits': [k for k, _ in edits],
                            'reuse_exc': type(e2).__name__ if e2 else None,
                            'fresh_exc': type(e3).__name__ if e3 else None}, wit, msg_kind=kind, status='c')
    # --- (d) two running orders through one message object
    ro4 = s.load(ro_txt)
    ro5 = s.load(ro_txt)
    m2 = message_object(s, msg_txt, via_reader)
    ro4, e4, _ = s.add(ro4, m2)
    ro5, e5, _ = s.add(ro5, m2)
    j = s.drain_and_judge(None, ctx)
    if e4 is None and e5 is None and kind != 'roDelete':
        before = str(ro5)
        cur4 = j[0][0]['post_xml'] if j else ro_txt
        edits2 = followups(rng, cur4, carried, ids, pool, rng.randint(1, 4))
        ro4, _ = apply_all(s, ro4, cur4, edits2, ctx, mid0=400)
        after = str(ro5)
        s.note_sig((kind, 'd', tuple(sorted({k for k, _ in edits2})), before == after))
        s.evaluations += 1
        wit2 = dict(wit)
        wit2['edits'] = [(k, B.msg_doc(k, 400 + i, **kw)) for i, (k, kw) in enumerate(edits2)]
        if before != after:
            s.custom_violation('two-running-orders-change-together', {'kind': kind, 'edits': [k for k, _ in edits2]},
                               wit2, msg_kind=kind, status='d')
        if str(m2) != t0 and str(m2) != str(s.load(msg_txt)):
            s.custom_violation('message-changed-by-later-merges-into-the-running-order',
                               {'kind': kind, 'via': 'two running orders'}, wit2, msg_kind=kind, status='b')


def any_kind_reuse(s, idx):
    """All 24 kinds, including messages whose IDs are spread over several
    element_source blocks: str(m) unchanged by reading its accessors, by
    inspect() and by merging; merging the same object twice == two fresh copies."""
    import contextlib
    import io
    rng = s.rng('any', idx)
    pool = gen.text_pool('plain')
    ids = gen.Ids('Z%d.' % idx)
    kind = B.ALL_KINDS[idx % len(B.ALL_KINDS)]
    ro_txt = gen.rand_ro(rng, n_stories=rng.randint(3, 6), pool=pool)
    # a third of the cases name an unknown ID among the sources: the first merge is refused half way through its checks
    sw = (0.9, 0.05, 0.05, 0) if rng.random() < 0.6 else (0.6, 0.4, 0, 0)
    msg_txt = gen.rand_message(rng, Abs(ro_txt), kind, 50, ids, pool=gen.text_pool('notes'), shape_weights=sw, selfref=0)
    if kind in ('EAStoryMove', 'roItemMoveMultiple', 'EAItemMove', 'EAStorySwap', 'EAItemSwap', 'roStoryMove') and rng.random() < 0.6:
        # first source resolves, a later one does not: the first merge is refused after part of the message was resolved
        st_ = Abs(ro_txt)
        S_ = st_.story_ids
        if kind in ('EAStoryMove', 'EAStorySwap', 'roStoryMove') and len(S_) >= 3:
            a_, b_, t_ = rng.sample(S_, 3)
            srcs = {'EAStoryMove': rng.choice([[a_, 'LATER-%d' % idx], [a_, b_, 'LATER-%d' % idx]]),
                    'EAStorySwap': [a_, 'LATER-%d' % idx], 'roStoryMove': [a_]}[kind]
            msg_txt = B.msg_doc(kind, 50, ids=srcs, target=('LATER-T%d' % idx if kind == 'roStoryMove' else rng.choice([t_, B.BLANK])))
        elif kind in ('roItemMoveMultiple', 'EAItemMove', 'EAItemSwap'):
            from ..canon import item_ids as _ii
            cand = [(i_, [x for x in _ii(st) if x]) for i_, st in zip(S_, st_.stories)]
            cand = [c_ for c_ in cand if len(set(c_[1])) == len(c_[1]) and len(c_[1]) >= 2]
            if cand:
                sid_, I_ = rng.choice(cand)
                a_, t_ = rng.sample(I_, 2)
                msg_txt = B.msg_doc(kind, 50, story_ref=sid_, ids=[a_, 'later-%d' % idx],
                                    **({} if kind == 'EAItemSwap' else {'target': rng.choice([t_, B.BLANK])}))
    judge_reuse(s, ro_txt, msg_txt, kind, idx, via_reader=(idx // len(B.ALL_KINDS)) % 3 == 1)


def judge_reuse(s, ro_txt, msg_txt, kind, idx, via_reader=False):
    import contextlib
    import io
    try:
        m = message_object(s, msg_txt, via_reader)
    except Exception:
        return
    wit = {'type': 'c13', 'scenario': 'any', 'ro_txt': ro_txt, 'msg_txt': msg_txt, 'kind': kind, 'edits': [],
           'via_reader': via_reader}
    t0 = str(m)
    for name in ('story', 'stories', 'item', 'items', 'source_story', 'target_story', 'source_stories'):
        try:
            v = getattr(m, name, None)
            for x in (v if isinstance(v, (list, tuple)) else [v]):
                # every read accessor of the exposed wrappers (reading must never write)
                for acc_ in ('id', 'slug', 'items', 'duration', 'offset', 'start_time', 'end_time', 'script', 'body',
                             'type', 'object_id', 'mos_id', 'note'):
                    try:
                        r_ = getattr(x, acc_, None)
                        if isinstance(r_, list):
                            [getattr(y, 'id', None) for y in r_]
                    except Exception:
                        pass
        except Exception:
            pass
    try:
        with contextlib.redirect_stdout(io.StringIO()):
            m.inspect()
    except Exception:
        pass
    s.evaluations += 1
    ok_read = str(m) == t0
    if not ok_read:
        s.custom_violation('message-modified-by-reading-it', {'kind': kind}, wit, msg_kind=kind, status='read')
    ro_a = s.load(ro_txt)
    ro_b = s.load(ro_txt)
    ro_c = s.load(ro_txt)
    # when the message names unknown sources, the second and third running orders get those elements first,
    # so that the same object - refused on the first one - now meets a running order where everything resolves
    from ..spec import interpret
    from xml.etree import ElementTree as ET
    mi = interpret(ET.fromstring(msg_txt))
    known_s = set(Abs(ro_txt).story_ids)
    fix = []
    if mi.level == 'story':
        for r_ in list(mi.sources) + [mi.target]:
            if r_[0] == 'id' and r_[1] not in known_s:
                fix.append(B.msg_doc('roStoryAppend', 40, carried=[gen.simple_story(r_[1], 1)]))
    elif mi.level == 'item' and mi.story_ref[0] == 'id' and mi.story_ref[1] in known_s:
        from ..canon import item_ids as _ii
        have = set(_ii(Abs(ro_txt).story(mi.story_ref[1])))
        for r_ in list(mi.sources) + [mi.target]:
            if r_[0] == 'id' and r_[1] not in have:
                fix.append(B.msg_doc('roItemInsert', 40, story_ref=mi.story_ref[1], target=B.BLANK, carried=[B.item(r_[1], 'x')]))
                have.add(r_[1])
    ro_a, ea, _ = s.add(ro_a, m)
    for fx in fix:
        ro_b, _e, _w = s.add(ro_b, s.load(fx))
        ro_c, _e, _w = s.add(ro_c, s.load(fx))
    ro_b, eb, _ = s.add(ro_b, m)
    ro_c, ec, _ = s.add(ro_c, s.load(msg_txt))
    if fix:
        ea = eb      # the first running order was a different state on purpose: compare re-use (b) with fresh (c) only
        ro_a = ro_b
    s.drain_and_judge(None, {'any-kind-reuse': idx})
    same = str(ro_a) == str(ro_b) == str(ro_c) and type(ea) is type(eb) is type(ec)
    s.note_sig((kind, 'any', 'split' if msg_txt.count('<element_source') > 1 else 'plain', ok_read, same))
    if str(m) != t0:
        s.custom_violation('message-modified-by-merge', {'kind': kind}, wit, msg_kind=kind, status='a')
    if not same:
        s.custom_violation('re-merge-of-same-object-differs-from-fresh-copy',
                           {'kind': kind, 'excs': [type(x).__name__ for x in (ea, eb, ec)]}, wit, msg_kind=kind, status='c')
    # the same object again, straight away, into the SAME running order  ==  a second freshly parsed copy
    ro_d, ed1, _ = s.add(ro_b, m)
    ro_e, ee1, _ = s.add(ro_c, s.load(msg_txt))
    s.drain_and_judge(None, {'any-kind-reuse-immediate': idx})
    same2 = str(ro_d) == str(ro_e) and type(ed1) is type(ee1)
    s.evaluations += 1
    s.note_sig((kind, 'again', same2, type(ed1).__name__))
    if not same2:
        s.custom_violation('immediate-re-merge-of-same-object-differs-from-fresh-copy',
                           {'kind': kind, 'excs': [type(x).__name__ for x in (ed1, ee1)]}, wit, msg_kind=kind, status='again')


def via_collection(s, idx):
    """MosCollection re-reads every message, so it must never exhibit sharing:
    merging the same collection twice (fresh) gives identical text."""
    rng = s.rng('coll', idx)
    pool = gen.text_pool('plain' if idx % 2 else 'hostile')
    ids = gen.Ids('V%d.' % idx)
    ro_txt = gen.rand_ro(rng, n_stories=rng.randint(2, 4), pool=pool, message_id=1)
    state = Abs(ro_txt)
    docs = [ro_txt]
    for k in range(rng.randint(2, 6)):
        docs.append(gen.rand_message(rng, state, rng.choice(CARRYING[:6] + CARRYING[9:]), 10 + k, ids, pool=pool))
    judge_twice(s, docs)


def judge_shared_readers(s, docs):
    """Two collections built from the SAME reader objects: merging one must not change the other
    (a reader restores a fresh object every time), and both end up with the same text."""
    import mosromgr.moscollection as mcmod
    from .. import events as EV
    EV.STATE['quiet'] = EV.STATE.get('quiet', 0) + 1
    try:
        try:
            readers = sorted(mcmod.MosReader.from_string(d) for d in docs)
            mc1 = mcmod.MosCollection(list(readers), allow_incomplete=True)
        except Exception:
            return
        try:
            mc2 = mcmod.MosCollection(list(readers), allow_incomplete=True)
        except Exception as e:
            # the same readers were good enough for the first collection
            s.evaluations += 1
            s.custom_violation('collections-built-from-the-same-readers-share-state',
                               {'second_collection_cannot_be_built': type(e).__name__, 'msg': str(e)[:120]},
                               {'type': 'collection', 'docs': docs, 'strict': False, 'shared_readers': True}, status='readers')
            return
    finally:
        EV.STATE['quiet'] -= 1
    before2 = str(mc2)
    e1, _ = K.merge_collection(s, mc1, False)
    EV.drain()
    untouched = str(mc2) == before2 and mc1.ro is not mc2.ro
    e2, _ = K.merge_collection(s, mc2, False)
    EV.drain()
    same = str(mc1) == str(mc2) and type(e1) is type(e2)
    s.evaluations += 1
    s.note_sig(('shared-readers', untouched, same))
    s.hist['shared_reader_cases'] += 1
    if not untouched or not same:
        s.custom_violation('collections-built-from-the-same-readers-share-state',
                           {'second_untouched_by_first_merge': untouched, 'same_result': same,
                            'excs': [type(e1).__name__ if e1 else None, type(e2).__name__ if e2 else None]},
                           {'type': 'collection', 'docs': docs, 'strict': False, 'shared_readers': True}, status='readers')


def judge_twice(s, docs):
    if len(docs) % 2:
        judge_shared_readers(s, docs)
    a, _, ea, _ = K.collection_merge(s, docs, False)
    b, _, eb, _ = K.collection_merge(s, docs, False)
    if a is not None and ea is None and len(docs) % 3 == 0:
        # the same documents handed over as files: the result depends on their content only, not on how they came
        import shutil
        import tempfile
        from .. import events as EV
        td = tempfile.mkdtemp(prefix='verif-c13-')
        try:
            c, cerr = K.make_collection(s, docs, 'files', True, td)
            ec = None
            if c is not None:
                ec, _w = K.merge_collection(s, c, False)
            EV.drain()
            s.evaluations += 1
            s.hist['collections_also_built_from_files'] += 1
            if c is None or ec is not None or str(c) != str(a):
                s.custom_violation('same-collection-merged-twice-differs',
                                   {'how': 'files vs strings', 'cannot_be_built': type(cerr).__name__ if cerr else None,
                                    'merge_exc': type(ec).__name__ if ec else None, 'host': getattr(s, 'hostenv', 'plain')},
                                   {'type': 'collection', 'docs': docs, 'strict': False})
        finally:
            shutil.rmtree(td, ignore_errors=True)
    if a is not None and b is not None:
        s.evaluations += 1
        s.note_sig(('collection-twice', str(a) == str(b)))
        if str(a) != str(b):
            s.custom_violation('same-collection-merged-twice-differs', {}, {'type': 'collection', 'docs': docs,
                                                                           'strict': False})


def content_only(s, idx):
    """The result of an add depends on the CONTENT of the running order only: at every step of a history the same
    message is also added to a freshly parsed copy of the current text - both must end up with the same text
    (a running-order object that remembers earlier messages outside its XML shows here)."""
    rng = s.rng('content', idx)
    pool = gen.text_pool('plain')
    ids = gen.Ids('D%d.' % idx)
    ro_txt = gen.rand_ro(rng, n_stories=rng.randint(2, 4), pool=pool, rich=False)
    ro = s.load(ro_txt)
    late = ['LATE-%d-%d' % (idx, k) for k in range(2)]
    msgs = []
    # messages about stories that are not there yet ... and, later, the messages that bring those stories
    for k, lid in enumerate(late):
        msgs.append(B.msg_doc('roStorySend', 20 + k, story_ref=lid, body=[E('p', 'early text for ' + lid)],
                              fields=[E('storySlug', 'early ' + lid), 'BODY']))
        msgs.append(B.msg_doc(rng.choice(['roStoryDelete', 'EAStoryDelete']), 30 + k, ids=[lid]))
    for k in range(rng.randint(1, 4)):
        msgs.append(gen.rand_message(rng, Abs(ro_txt), K.weighted_kinds(rng, K.kind_weights(1, 1, 0.3, 0)), 40 + k, ids,
                                     pool=pool, rich=False))
    rng.shuffle(msgs)
    for k, lid in enumerate(late):
        kind = rng.choice(['roStoryAppend', 'roStoryInsert', 'roStoryReplace', 'EAStoryInsert'])
        kw = {'carried': [gen.simple_story(lid, 2)]}
        if kind != 'roStoryAppend':
            kw['target'] = Abs(ro_txt).story_ids[0]
        msgs.append(B.msg_doc(kind, 60 + k, **kw))
    for k, mtxt in enumerate(msgs):
        before = str(ro)
        try:
            fresh_ro, fresh_m, live_m = s.load(before), s.load(mtxt), s.load(mtxt)
        except Exception:
            break
        ro, e1, _ = s.add(ro, live_m)
        fresh_ro, e2, _ = s.add(fresh_ro, fresh_m)
        s.drain_and_judge(None, {'content-only': idx, 'step': k})
        s.evaluations += 1
        same = str(ro) == str(fresh_ro) and type(e1) is type(e2)
        s.note_sig(('content-only', type(live_m).__name__, same))
        if not same:
            s.custom_violation('result-depends-on-more-than-the-content-of-the-running-order',
                               {'kind': type(live_m).__name__, 'step': k, 'excs': [type(e1).__name__, type(e2).__name__]},
                               {'type': 'content-only', 'ro_txt': ro_txt, 'msgs': msgs[:k + 1]},
                               msg_kind=type(live_m).__name__, status='content-only')
            break
    s.hist['content_only_histories'] += 1


def replay_content_only(s, w):
    ro = s.load(w['ro_txt'])
    for k, mtxt in enumerate(w['msgs']):
        before = str(ro)
        fresh_ro = s.load(before)
        ro, e1, _ = s.add(ro, s.load(mtxt))
        fresh_ro, e2, _ = s.add(fresh_ro, s.load(mtxt))
        s.drain_and_judge(None, {'replay': True})
        s.evaluations += 1
        if str(ro) != str(fresh_ro) or type(e1) is not type(e2):
            s.custom_violation('result-depends-on-more-than-the-content-of-the-running-order', {'step': k}, w, status='content-only')
            return


def refused_first_merge(s):
    """The first merge of a message object ends in an exception that comes from the host - the duplicate report
    turned into an error, a log handler that fails - after part of the message was applied. The object is then
    used again: it is still what was sent, later edits to the running order do not reach it, and merging it into a
    fresh running order equals merging a freshly parsed copy."""
    new = lambda i: gen.simple_story(i, 2)
    idx = 0
    ro_txt = gen.grid_ro(['A', 'B', 'C'], 'none', pretty=False)
    for kind, kw in [('roStoryInsert', dict(target='C', carried=[new('N1'), new('B')])),
                     ('EAStoryInsert', dict(target='A', carried=[new('N1'), new('N2'), new('B')])),
                     ('EAStoryInsert', dict(target=B.BLANK, carried=[new('N1'), new('A')])),
                     ('roStoryDelete', dict(ids=['A', 'gone', 'B'])), ('EAItemDelete', dict(story_ref='B', ids=['B.0', 'gone']))]:
        for host in ('error-filter', 'log-handler'):
            idx += 1
            if not s.mine(idx):
                continue
            msg_txt = B.msg_doc(kind, 50, **kw)
            m = s.load(msg_txt)
            t0 = str(m)
            ro1 = s.load(ro_txt)
            if host == 'error-filter':
                ro1, err, _w = s.add(ro1, m, error_on=Warning)
            else:
                with K.failing_log_handler():
                    ro1, err, _w = s.add(ro1, m)
            s.drain_and_judge(None, {'refused-first-merge': host})
            wit = {'type': 'c13', 'ro_txt': ro_txt, 'msg_txt': msg_txt, 'kind': kind, 'edits': []}
            # edit whatever of the message has arrived
            for k_, ed in enumerate([B.msg_doc('roItemDelete', 60, story_ref='N1', ids=['N1.0']),
                                     B.msg_doc('roItemInsert', 61, story_ref='N1', target=B.BLANK, carried=[B.item('late', 'x')]),
                                     B.msg_doc('roStorySend', 62, story_ref='N1', body=[B.E('p', 'rewritten')], fields=['BODY'])]):
                ro1, _e, _v, _ev = s.step(ro1, ed, {'refused-first-merge': host, 'edit': k_})
            s.evaluations += 1
            same_text = str(m) == t0
            ro2, e2, _ = s.add(s.load(ro_txt), m)
            ro3, e3, _ = s.add(s.load(ro_txt), s.load(msg_txt))
            s.drain_and_judge(None, {'refused-first-merge': host, 'phase': 'reuse'})
            same_merge = str(ro2) == str(ro3) and type(e2) is type(e3)
            s.note_sig(('refused-first-merge', kind, host, type(err).__name__ if err else 'returned', same_text, same_merge))
            s.hist['refused_first_merge_cases'] += 1
            if not same_text:
                s.custom_violation('message-changed-by-later-merges-into-the-running-order',
                                   {'kind': kind, 'first_merge_ended_with': type(err).__name__ if err else None, 'host': host},
                                   wit, msg_kind=kind, status='refused-first')
            if not same_merge:
                s.custom_violation('re-merge-of-same-object-differs-from-fresh-copy',
                                   {'kind': kind, 'first_merge_ended_with': type(err).__name__ if err else None, 'host': host},
                                   wit, msg_kind=kind, status='refused-first')


def repeated_carried(s):
    """Messages that carry one ID twice (stories of a roReplace / append / insert / replace, items of an
    item insert / replace): read, merged, merged again - the object stays what was sent."""
    new = lambda i, n=1: gen.simple_story(i, n)
    idx = 0
    for layout in ('none', 'between'):
        ro_txt = gen.grid_ro(['A', 'B', 'C'], layout, pretty=False)
        rr = lambda names: gen.grid_ro(names, 'none').replace('roCreate', 'roReplace').replace(
            '<messageID>1</messageID>', '<messageID>50</messageID>')
        cases = [('roReplace', rr(['X', 'Y', 'X'])), ('roReplace', rr(['X', 'X'])), ('roReplace', rr(['A', 'X', 'A', 'X'])),
                 ('roStoryAppend', B.msg_doc('roStoryAppend', 50, carried=[new('N1'), new('N1')])),
                 ('roStoryAppend', B.msg_doc('roStoryAppend', 50, carried=[new('B'), new('N1'), new('B')])),
                 ('roStoryInsert', B.msg_doc('roStoryInsert', 50, target='B', carried=[new('N1'), new('N2'), new('N1')])),
                 ('EAStoryInsert', B.msg_doc('EAStoryInsert', 50, target='B', carried=[new('N1'), new('N1')])),
                 ('roStoryReplace', B.msg_doc('roStoryReplace', 50, target='A', carried=[new('A'), new('A')])),
                 ('EAStoryReplace', B.msg_doc('EAStoryReplace', 50, target='A', carried=[new('N1'), new('N2'), new('N1')])),
                 ('roItemInsert', B.msg_doc('roItemInsert', 50, story_ref='A', target=B.BLANK, carried=[B.item('n', 'x'), B.item('n', 'y')])),
                 ('roItemReplace', B.msg_doc('roItemReplace', 50, story_ref='A', target='A.0', carried=[B.item('n', 'x'), B.item('n', 'y')])),
                 ('EAItemInsert', B.msg_doc('EAItemInsert', 50, story_ref='A', target='A.0', carried=[B.item('A.0', 'x'), B.item('A.0', 'y')]))]
        for kind, msg_txt in cases:
            idx += 1
            if s.mine(idx):
                judge_reuse(s, ro_txt, msg_txt, kind, 'repeated-%d' % idx)
                s.hist['repeated_carried_cases'] += 1


def run(s):
    K.hostile_callers(s)
    q = s.tier == 'quick'
    repeated_carried(s)
    refused_first_merge(s)
    for c in range(60 if q else 4000):
        if s.mine(c):
            content_only(s, c)
    n = 50 if q else 3000
    idx = 0
    for i in range(n):
        for kind in CARRYING:
            idx += 1
            if s.mine(idx):
                case(s, idx, kind)
    for c in range(60 if q else 2500):
        if s.mine(c):
            via_collection(s, c)
    for c in range(480 if q else 20000):
        if s.mine(c):
            any_kind_reuse(s, c)
    if s.mine(2):
        # readers over LARGE documents (a running order of several hundred stories, > 64 KiB) used by two collections
        big = B.ro_doc('RO', 1, [gen.simple_story('L%04d' % k, 2) for k in range(450)], ed_start='2020-01-01T12:30:00')
        docs = [big, B.msg_doc('roStoryAppend', 5, carried=[gen.simple_story('N%03d' % k, 2) for k in range(250)]),
                B.msg_doc('roItemDelete', 6, story_ref='L0007', ids=['L0007.0']), B.msg_doc('roDelete', 9)]
        s.hist['large_document_reader_cases'] += 1
        judge_shared_readers(s, docs)


def replay(s, data):
    w = data['witness']
    if w.get('scenario') == 'any':
        judge_reuse(s, w['ro_txt'], w['msg_txt'], w['kind'], 0, via_reader=w.get('via_reader', False))
        return
    if w.get('type') == 'content-only':
        return replay_content_only(s, w)
    if w.get('type') == 'collection':
        if w.get('shared_readers'):
            return judge_shared_readers(s, w['docs'])
        return judge_twice(s, w['docs'])
    if w.get('type') != 'c13':
        return K.replay_transition(s, data)
    ro1 = s.load(w['ro_txt'])
    m = message_object(s, w['msg_txt'], w.get('via_reader', False))
    t0 = str(m)
    ro1, err, _ = s.add(ro1, m)
    s.drain_and_judge()
    if str(m) != t0:
        s.custom_violation('message-modified-by-merge', {'kind': w['kind']}, w, msg_kind=w['kind'], status='a')
    ro4 = s.load(w['ro_txt'])
    ro4, _, _ = s.add(ro4, m)
    before = str(ro4)
    for k, txt in w.get('edits', []):
        ro1, e, v, ev = s.step(ro1, txt)
    if str(m) != t0:
        s.custom_violation('message-changed-by-later-merges-into-the-running-order', {'kind': w['kind']}, w,
                           msg_kind=w['kind'], status='b')
    if str(ro4) != before:
        s.custom_violation('two-running-orders-change-together', {'kind': w['kind']}, w, msg_kind=w['kind'], status='d')
    ro2 = s.load(w['ro_txt'])
    ro3 = s.load(w['ro_txt'])
    ro2, e2, _ = s.add(ro2, m)
    ro3, e3, _ = s.add(ro3, s.load(w['msg_txt']))
    if str(ro2) != str(ro3):
        s.custom_violation('re-merge-of-same-object-differs-from-fresh-copy', {'kind': w['kind']}, w,
                           msg_kind=w['kind'], status='c')
    s.evaluations += 1


def gates(agg, tier):
    r = []
    for k in CARRYING:
        K.need(agg, r, K.sig_has(agg, "('%s', 'c'" % k), 'carrying kind %s never re-used' % k)
        if k != 'roDelete':
            K.need(agg, r, K.sig_has(agg, "('%s', 'b'" % k), 'carrying kind %s never inspected after later edits' % k)
    K.need(agg, r, K.sig_has(agg, "'roItemDelete'") or K.sig_has(agg, "'EAItemDelete'"),
           'no item delete aimed at a carried story')
    return r
