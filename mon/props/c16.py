"""C16 - durations, offsets, start and end times are arithmetically consistent."""
import itertools

from .. import build as B
from .. import gen
from ..build import E
from . import common as K
from . import acc

META = {
    'rule': ('Duration vectors of length 0-10 over every mix of StoryDuration / TextTime / MediaTime (values multiples '
             'of 1/8 so sums are exact), explicit StoryStarted / StoryEnded on every subset of stories for n<=4 '
             '(quick n<=3), with / without / empty roEdStart; and every state reached by histories of reorders, '
             'inserts, replaces, re-sends and deletes over fully timed running orders. At every state all accessors are '
             'swept; icontract postconditions on the real Story.duration / RunningOrder.duration / start_time / '
             'end_time and on RunningOrder.stories (offset, start, end of every returned story) compare with reference '
             'functions written from the statement (duration precedence, prefix sums, start/end derivation, last '
             'story ends the running order), floats with isclose(1e-9). Signature = (story count, timing mix, roEdStart, '
             'explicit start/end, ..., producing message kind).'),
    'exhaustive_part': 'explicit StoryStarted/StoryEnded subsets complete for n<=4 (thorough) / n<=3 (quick)',
    'workers': {'quick': 12, 'thorough': 16},
    'watchdog': {'quick': 600, 'thorough': 3600},
    'assumptions': ['more than one mosExternalMetadata block per story, non-numeric durations, unparseable times and '
                    'duplicate story IDs are outside the claim'],
}

TAGS = [('duration',), ('text_time',), ('media_time',), ('text_time', 'media_time'), ('duration', 'text_time', 'media_time')]


def vector_ro(rng, n, ed_start, explicit_start=(), explicit_end=()):
    stories = []
    for k in range(n):
        tags = rng.choice(TAGS)
        kw = {t: rng.randint(0, 80) / 8 for t in tags}
        if k in explicit_start:
            kw['started'] = '2020-01-01T%02d:%02d:%02d' % (rng.randint(0, 23), rng.randint(0, 59), rng.randint(0, 59))
        if k in explicit_end:
            kw['ended'] = '2020-01-02T%02d:%02d:%02d' % (rng.randint(0, 23), rng.randint(0, 59), rng.randint(0, 59))
        stories.append(B.story('T%d' % k, 'slug %d' % k, [B.item('T%d.i' % k, 'x'), E('p', 'text %d' % k)],
                               timing_el=B.timing(**kw)))
    return B.ro_doc('RO', 1, stories, ed_start=ed_start, pretty=rng.random() < 0.5)


def callers_story_list(s):
    """Story objects built by the caller: Story(tag, all_stories=<the caller's list or iterator>, prog_start_time=..).
    What the caller does with its list afterwards does not change a story's offset, start or end."""
    from xml.etree import ElementTree as ET
    from datetime import datetime
    from ..contracts import ref_story_table, feq
    import mosromgr.moselements as me
    for i in range(6):
        if not s.mine(i):
            continue
        rng = s.rng('callers-list', i)
        txt = vector_ro(rng, rng.randint(3, 6), '2020-01-01T12:30:00')
        rc = ET.fromstring(txt).find('roCreate')
        tags = [c for c in rc if c.tag == 'story']
        want = ref_story_table(rc)['rows']
        start0 = datetime(2020, 1, 1, 12, 30, 0)
        for how in ('list-then-reversed', 'list-then-cleared', 'iterator', 'tuple'):
            lst = list(tags)
            arg = iter(lst) if how == 'iterator' else (tuple(lst) if how == 'tuple' else lst)
            try:
                objs = [me.Story(t, all_stories=(iter(list(tags)) if how == 'iterator' else arg), prog_start_time=start0) for t in tags]
                if how == 'list-then-reversed':
                    lst.reverse()
                elif how == 'list-then-cleared':
                    lst.clear()
                got = [(o.offset, o.start_time, o.end_time) for o in objs]
                got2 = [(o.offset, o.start_time, o.end_time) for o in objs]       # read twice
                err = None
            except Exception as e:
                got = got2 = None
                err = e
            exp = [(r['offset'], r['start'], r['end']) for r in want]
            ok = err is None and got == got2 and all(feq(g[0], w[0]) and g[1] == w[1] and g[2] == w[2] for g, w in zip(got, exp))
            s.evaluations += 1
            s.note_sig(('callers-story-list', how, ok))
            s.hist['callers_story_list_cases'] += 1
            if not ok:
                s.custom_violation('accessor-disagrees-with-xml',
                                   {'accessor': 'Story.offset / start_time / end_time of a Story built with all_stories=',
                                    'how': how, 'exc': type(err).__name__ if err else None},
                                   {'type': 'state', 'xml': txt, 'context': {'callers-list': how}}, status='callers-list')


def header_placement(s):
    """roEdStart (and other header fields) need not stand in front of the stories: documents that carry it behind
    or between them, and the state two messages leave - a roMetadataReplace that adds roEdStart to a running order
    that had none (it lands behind the stories), then a story appended / moved behind it."""
    import re
    idx = 0
    for n in (1, 3, 4):
        for where in ('behind', 'between', 'behind-then-more'):
            idx += 1
            if not s.mine(idx):
                continue
            rng = s.rng('placement', idx)
            txt = vector_ro(rng, n, '2024-05-01T18:00:00').replace('\n', '')
            txt = re.sub(r'>\s+<', '><', txt)
            ed = '<roEdStart>2024-05-01T18:00:00</roEdStart>'
            txt = txt.replace(ed, '', 1)
            ends = [m.end() for m in re.finditer('</story>', txt)]
            at = ends[-1] if where != 'between' or n == 1 else ends[0]
            extra = ed + ('<roChannel>c</roChannel>' if where == 'behind-then-more' else '')
            txt = txt[:at] + extra + txt[at:]
            acc.sweep(s, s.load(txt), txt, {'header-placement': where}, after='initial')
            s.hist['header_placement_states'] += 1
    for tail in ('roStoryAppend', 'roStoryMove', 'EAStoryInsert', 'EAStoryMove'):
        idx += 1
        if not s.mine(idx):
            continue
        rng = s.rng('placement-history', tail)
        txt = vector_ro(rng, 3, None)
        ro = s.load(txt)
        cur = txt
        new = B.story('T9', 'late', [B.item('T9.i', 'x')], timing_el=B.timing(text_time=4.5))
        steps = [B.msg_doc('roMetadataReplace', 10, carried=[E('roSlug', 'x'), E('roChannel', 'c'), E('roEdStart', '2024-05-01T18:00:00')]),
                 {'roStoryAppend': B.msg_doc('roStoryAppend', 11, carried=[new]),
                  'roStoryMove': B.msg_doc('roStoryMove', 11, ids=['T0'], target=B.BLANK),
                  'EAStoryInsert': B.msg_doc('EAStoryInsert', 11, target=B.BLANK, carried=[new]),
                  'EAStoryMove': B.msg_doc('EAStoryMove', 11, ids=['T1', 'T0'], target=B.BLANK)}[tail],
                 B.msg_doc('roStoryMove', 12, ids=['T2'], target='T1')]
        for k_, msg in enumerate(steps):
            ro, err, v, ev = s.step(ro, msg, {'placement-history': tail, 'step': k_})
            if ev is not None and ev.get('post_xml'):
                cur = ev['post_xml']
            acc.sweep(s, ro, cur, {'placement-history': tail, 'step': k_}, after=(ev or {}).get('msg_cls'))
        s.hist['header_placement_histories'] += 1


def run(s):
    K.hostile_callers(s)
    q = s.tier == 'quick'
    for k_, txt_ in enumerate(K.idless_states()):
        if s.mine(k_):
            acc.sweep(s, s.load(txt_), txt_, {'workload': 'id-less elements'})
    if s.mine(3):
        # a very long running order (recursive or quadratic accessor implementations show here)
        big_ = B.ro_doc('RO', 1, [gen.simple_story('L%04d' % k, 1, dur=(k % 7) + 0.5) for k in range(1100)],
                        ed_start='2020-01-01T12:30:00')
        acc.sweep(s, s.load(big_), big_, {'workload': '1100 stories'})
        s.hist['very_long_running_orders'] += 1

    header_placement(s)
    callers_story_list(s)

    def on_pair_state(ro, cur, ev):
        acc.sweep(s, ro, cur, {'workload': 'pair-history'}, after=(ev or {}).get('msg_cls'))
    for i_ in range(150 if q else 6000):
        if s.mine(i_):
            acc.interleaved(s, i_)
    K.pair_histories(s, timing='timed', text='plain', on_state=on_pair_state)
    idx = 0
    starts = ('2020-01-01T12:30:00', None, '', '2021-03-28T00:59:57', '2021-10-31T01:59:57')
    for n in range(0, 11):
        for rep in range(3 if q else 25):
            for ed in starts:
                idx += 1
                if s.mine(idx):
                    rng = s.rng('vec', idx)
                    txt = vector_ro(rng, n, ed)
                    acc.sweep(s, s.load(txt), txt, {'vector': idx}, after='initial')
    nmax = 3 if q else 4
    for n in range(1, nmax + 1):
        subsets = [c for k in range(n + 1) for c in itertools.combinations(range(n), k)]
        for es in subsets:
            for ee in subsets:
                for ed in (starts[0], starts[1], starts[3]):
                    idx += 1
                    if s.mine(idx):
                        rng = s.rng('explicit', idx)
                        txt = vector_ro(rng, n, ed, es, ee)
                        acc.sweep(s, s.load(txt), txt, {'explicit': (es, ee)}, after='initial')
    nh = 100 if q else 12000
    w = K.kind_weights(1.0, 0.3, 0.3, 0.0)
    for h in range(nh):
        if not s.mine(h):
            continue

        def on_state(ro, cur, ev, h=h):
            acc.sweep(s, ro, cur, {'history': h}, after=(ev or {}).get('msg_cls'))
        K.fuzz_history(s, h, w, steps=(3, 15), text='plain', timing='timed' if h % 4 else 'any', on_state=on_state, direct=0.25,
                       shape_weights=(0.95, 0.03, 0.02, 0.0), selfref=0.0, ro_kw={'share_items': False})
    s.hist['fuzz_histories_total'] = nh


replay = acc.replay_state


def gates(agg, tier):
    r = []
    acc.acc_gates(agg, ['Story.duration', 'Story.offset@ro', 'Story.start_time@ro', 'Story.end_time@ro',
                        'RunningOrder.duration', 'RunningOrder.start_time', 'RunningOrder.end_time'], r)
    K.need(agg, r, K.sig_has(agg, "'all', True"), 'no fully timed running order with roEdStart observed')
    K.need(agg, r, K.sig_has(agg, "(True, True)") or K.sig_has(agg, "(True, False)"), 'no explicit StoryStarted observed')
    K.need(agg, r, any("'state'" in sg and "'StoryMove'" in sg for sg in agg['sigs']) or
           any("'EAStoryMove'" in sg for sg in agg['sigs']), 'timing never re-checked after a reorder')
    return r
