"""C15 - read accessors never raise and agree with the XML in every reachable state."""
from .. import build as B
from .. import gen
from . import common as K
from . import acc

META = {
    'rule': ('Random running orders whose stories carry ANY subset of the optional data (StoryDuration / TextTime / '
             'MediaTime, StoryStarted / StoryEnded, mosExternalMetadata with an empty mosPayload or with none at all, '
             'no timing block), items with any subset of objID / mosID / objType / notes, hostile text; and every state '
             'reached by histories that insert, append, replace, re-send, move and delete stories with and without '
             'timing. At every state (initial and after each add) every documented read accessor of the running '
             'order, of each story and of each item is called; icontract postconditions on the real properties '
             'compare each result with a value recomputed from the XML, guard wrappers record any exception '
             '(including exceptions raised inside accessors that merges call internally). Signature = (story count, '
             'timed all/none/mixed, roEdStart present, explicit start/end present, paragraph and item counts, kind of '
             'the message that produced the state).'),
    'workers': {'quick': 12, 'thorough': 16},
    'watchdog': {'quick': 600, 'thorough': 3600},
    'assumptions': ['stories have a storyID and items an itemID; durations numeric and times ISO-8601 where present'],
}


def run(s):
    K.hostile_callers(s)
    q = s.tier == 'quick'
    from .c16 import header_placement
    header_placement(s)
    for k_, txt_ in enumerate(K.idless_states()):
        if s.mine(k_):
            acc.sweep(s, s.load(txt_), txt_, {'workload': 'id-less elements'})
    if s.mine(3):
        # a very long running order (recursive or quadratic accessor implementations show here)
        big_ = B.ro_doc('RO', 1, [gen.simple_story('L%04d' % k, 1, dur=(k % 7) + 0.5) for k in range(1100)],
                        ed_start='2020-01-01T12:30:00')
        acc.sweep(s, s.load(big_), big_, {'workload': '1100 stories'})
        s.hist['very_long_running_orders'] += 1

    def on_pair_state(ro, cur, ev):
        acc.sweep(s, ro, cur, {'workload': 'pair-history'}, after=(ev or {}).get('msg_cls'))
    for i_ in range(150 if q else 6000):
        if s.mine(i_):
            acc.interleaved(s, i_)
    K.pair_histories(s, timing='any', text='hostile', on_state=on_pair_state)
    n = 150 if q else 12000
    w = K.kind_weights(1.0, 0.5, 0.4, 0.02)
    for h in range(n):
        if not s.mine(h):
            continue
        timing = ['any', 'any', 'none', 'timed'][h % 4]

        def on_state(ro, cur, ev, h=h):
            kind = None
            if ev is not None:
                kind = ev.get('msg_cls')
            acc.sweep(s, ro, cur, {'history': h}, after=kind)
        K.fuzz_history(s, h, w, steps=(3, 15), text='hostile', timing=timing, on_state=on_state, direct=0.25,
                       drop=(0.25 if h % 3 == 0 else 0.0))     # a third of the histories: messages that lost one element
    s.hist['fuzz_histories_total'] = n


replay = acc.replay_state


def gates(agg, tier):
    r = []
    acc.acc_gates(agg, ['RunningOrder.' + a for a in ('stories', 'duration', 'start_time', 'end_time', 'script', 'body',
                                                     'completed', 'ro_slug')] +
                  ['Story.' + a for a in ('id', 'slug', 'items', 'duration', 'script', 'body')] +
                  ['Item.' + a for a in ('id', 'slug', 'type', 'object_id', 'mos_id', 'note')], r)
    K.need(agg, r, K.sig_has(agg, "'mixed'"), 'no state mixing timed and untimed stories')
    K.need(agg, r, K.sig_has(agg, "'none'"), 'no state without any timing')
    K.need(agg, r, agg['hist'].get('accessor_calls', 0) > 0, 'no accessor was called')
    return r
