"""C01 - story order after any story-level merge follows the MOS protocol."""
from .. import build as B
from . import common as K

META = {
    'rule': ('Bounded-exhaustive grid: every story count n<=N, every ordered k-tuple (k<=3) of sources, every '
             'target (each story, blank, absent, unknown), duplicates at each position, x 5 metadata layouts x '
             '{compact, pretty}; then seeded random histories (all 24 kinds, story-heavy) so the same relation is '
             'judged from every state reached by earlier merges. A case signature is (message kind, relation '
             'status, reference-shape vector, relative-position class of sources/target, list lengths, metadata '
             'layout, story count, outcome kind); it counts as non-trivial when the library changed the state, '
             'raised or warned.'),
    'exhaustive_part': 'story-level grid up to the stated bounds (quick n<=4, thorough n<=5); fuzz part is sampled',
    'workers': {'quick': 12, 'thorough': 16},
    'watchdog': {'quick': 600, 'thorough': 3600},
    'assumptions': ['running orders with duplicate story IDs are outside the order claim (conservation still checked)'],
}


def run(s):
    K.hostile_callers(s)
    K.suite_workload(s)
    K.fixtures_workload(s)
    K.collision_cases(s, 'story')
    K.recreate_cases(s, 'story')
    K.huge_cases(s, 2 if s.tier == 'quick' else 12)
    K.large_cases(s, 24 if s.tier == 'quick' else 600, 'story')
    K.pair_histories(s)
    K.reuse_objects(s, B.STORY_KINDS, 110 if s.tier == 'quick' else 6000)
    K.resend_after_reorder(s, 4 if s.tier == 'quick' else 5)
    # a running-order element that holds nothing but stories (moving every story empties it for a moment)
    K.story_grid(s, 3, layouts=('bare',), pretties=(False,), kmax=3, full=False)
    K.story_grid(s, 3, layouts=('before',), pretties=(True,), kmax=2, full=False, names=K.LONG_NAMES)
    K.story_grid(s, 4, layouts=('before',), pretties=(False,), kmax=2, full=False, names=K.HOSTILE_NAMES_C)
    K.story_grid(s, 4, layouts=('before',), pretties=(False,), kmax=2, full=False, names=K.HOSTILE_NAMES_D)
    if s.tier == 'quick':
        K.story_grid(s, 4, layouts=('none', 'between', 'everywhere'), kmax=3, full=False)
        K.story_grid(s, 4, layouts=('before',), pretties=(False,), kmax=2, full=False, names=K.HOSTILE_NAMES)
        K.story_grid(s, 4, layouts=('before',), pretties=(False,), kmax=2, full=False, names=K.HOSTILE_NAMES_B)
        K.fuzz(s, 240, K.kind_weights(story=1.0, item=0.15, other=0.2), steps=(5, 25), direct=0.15)
    else:
        K.story_grid(s, 5, kmax=3, full=True)
        K.story_grid(s, 6, layouts=('before', 'between'), kmax=2, full=False, names=K.HOSTILE_NAMES)
        K.story_grid(s, 4, layouts=('before', 'between'), kmax=2, full=False, names=K.HOSTILE_NAMES_B)
        K.fuzz(s, 15000, K.kind_weights(story=1.0, item=0.15, other=0.2), steps=(5, 40), direct=0.15)


replay = K.replay_transition


def gates(agg, tier):
    r = []
    K.kinds_seen(agg, B.STORY_KINDS, r)
    K.need(agg, r, K.sig_has(agg, "'roStoryMove'", "'before'"), 'no forward roStoryMove (source before target) observed')
    K.need(agg, r, K.sig_has(agg, "'roStoryMove'", "'after'"), 'no backward roStoryMove observed')
    K.need(agg, r, K.sig_has(agg, "'EAStoryMove', 'ok'", ", 3, 0)"), 'no 3-source EAStoryMove observed')
    K.need(agg, r, K.sig_has(agg, "'EAStoryDelete', 'ok'", ", 2, 0)"), 'no multi-ID EAStoryDelete observed')
    K.need(agg, r, K.sig_has(agg, "'EAStorySwap', 'ok'"), 'no resolvable swap observed')
    K.need(agg, r, agg['hist'].get('outcome:ok', 0) > 0, 'no state-changing successful merge observed')
    return r
