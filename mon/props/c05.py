"""C05 - a merge that raises leaves the running order exactly as it was."""
from .. import build as B
from .. import gen
from ..canon import Abs
from . import common as K

META = {
    'rule': ('Every way a message can fail: the grids place the unresolvable ID at each position k of an n-element '
             'list (n<=4), unknown / blank targets, unknown addressed story, identical swap operands, target among '
             'sources, repeated IDs; the reference-shape product; miss-heavy random histories; and non-strict '
             'collection merges containing 1-5 failing messages (the monitor sees every inner +). The oracle is the '
             'byte comparison of the monitor\'s own serialisation of the tree before the call and after the '
             'exception propagated. Signature = transition signature; non-trivial = raised, warned or changed.'),
    'exhaustive_part': 'fault position x list length grid complete to the stated bounds; histories are sampled',
    'workers': {'quick': 12, 'thorough': 16},
    'watchdog': {'quick': 600, 'thorough': 3600},
    'assumptions': ['no artificial exceptions are injected inside a merge (DESIGN section 1): faults are input faults'],
}

RAISING_KINDS = ('roStoryInsert', 'roStoryReplace', 'roStoryMove', 'roItemDelete', 'roItemInsert', 'roItemReplace',
                 'roItemMoveMultiple', 'EAStoryReplace', 'EAItemReplace', 'EAStoryInsert', 'EAItemInsert',
                 'EAStorySwap', 'EAItemSwap', 'EAStoryMove', 'EAItemMove')


def collections(s, n):
    for c in range(n):
        if not s.mine(c):
            continue
        rng = s.rng('coll', c)
        pool = gen.text_pool('plain')
        ro_txt = gen.rand_ro(rng, n_stories=rng.randint(2, 5), pool=pool, message_id=1)
        state = Abs(ro_txt)
        ids = gen.Ids('K%d.' % c)
        docs = [ro_txt]
        for k in range(rng.randint(3, 10)):
            kind = K.weighted_kinds(rng, K.kind_weights(1, 1, 0.2, 0.0))
            docs.append(gen.rand_message(rng, state, kind, 10 + k, ids, pool=pool,
                                         shape_weights=(0.45, 0.3, 0.2, 0.05), selfref=0.15))
        rng.shuffle(docs)
        judge_collection_state(s, docs, c)


def judge_collection_state(s, docs, c):
    """Every inner add is judged by the monitor; in addition the collection's running order at the end is what
    adding the messages one by one (skipping the failing ones) gives - a failing message changes nothing, and the
    collection must not take anything back because of it either."""
    from .. import events as EV
    mc, cerr, merr, wl = K.collection_merge(s, docs, strict=False, ctx={'collection': c})
    if mc is None:
        return
    fold_text, n_failed, ferr, applied = K.hand_fold(s, docs, False)
    EV.drain()
    s.evaluations += 1
    s.note_sig(('collection-end-state', min(n_failed, 5), str(mc) == fold_text))
    s.hist['collection_end_states'] += 1
    if ferr is None and merr is None and str(mc) != fold_text:
        s.custom_violation('failing-message-in-a-non-strict-collection-changed-the-running-order',
                           {'n_docs': len(docs), 'failing_messages': n_failed},
                           {'type': 'collection-state', 'docs': docs}, status='collection')


def odd_timing_inserts(s, n_states):
    """Multi-story inserts / appends / replaces whose k-th carried story has
    timing metadata that cannot be turned into a number (empty tag, 0:45, text):
    whatever the library does with it, a raise must leave the running order as it was."""
    from ..build import E
    idx = 0
    odd = [lambda: E('TextTime'), lambda: E('TextTime', '0:45'), lambda: E('MediaTime', 'abc'),
           lambda: E('StoryDuration'), lambda: E('StoryDuration', '1,5')]
    for i in range(n_states):
        rng = s.rng('odd', i)
        S = K.STORY_NAMES[:rng.randint(1, 4)]
        ro_txt = gen.grid_ro(S, rng.choice(K.LAYOUTS), pretty=rng.random() < 0.5)
        for kind in ('roStoryInsert', 'EAStoryInsert', 'roStoryAppend', 'roStoryReplace', 'EAStoryReplace'):
            for n in (2, 3, 4):
                for k in range(n):
                    idx += 1
                    if not s.mine(idx):
                        continue
                    carried = []
                    for j in range(n):
                        st = gen.simple_story('N%d' % j, 1)
                        if j == k:
                            payload = st.find('mosExternalMetadata').find('mosPayload')
                            for c in list(payload):
                                payload.remove(c)
                            payload.append(rng.choice(odd)())
                        carried.append(st)
                    kw = {'carried': carried}
                    if kind != 'roStoryAppend':
                        kw['target'] = rng.choice(S)
                    K.run_case(s, ro_txt, kind, kw, ctx={'odd-timing-at': k, 'of': n})
    s.hist['odd_timing_cases'] = idx


def judge_forced(s, ro_txt, msg_txt, cls_name):
    """A message object built as class `cls_name` from a document (any document: the typed
    constructors do not classify).  Only this is judged: if adding it raises, nothing changed."""
    import warnings as W
    from .. import events as EV
    cls = getattr(s.mt, cls_name)
    EV.STATE['quiet'] = EV.STATE.get('quiet', 0) + 1
    try:
        try:
            m = cls.from_string(msg_txt)
            ro = s.mt.RunningOrder.from_string(ro_txt)
        except Exception:
            return None
        pre, pre_completed = str(ro), bool(ro.completed)
        err = None
        with W.catch_warnings():
            W.simplefilter('ignore')
            try:
                ro + m
            except Exception as e:
                err = e
        post, post_completed = str(ro), bool(ro.completed)
    finally:
        EV.STATE['quiet'] -= 1
        EV.drain()
    s.evaluations += 1
    natural = None
    try:
        from xml.etree import ElementTree as ET
        from ..spec import classify_doc
        natural = classify_doc(ET.fromstring(msg_txt))
    except Exception:
        pass
    s.note_sig(('forced', cls_name, natural == cls_name, type(err).__name__ if err else 'ok', pre == post))
    s.hist['forced:%s' % ('raise' if err else 'ok')] += 1
    if err is not None and (pre != post or pre_completed != post_completed):
        s.custom_violation('raise-left-state-changed',
                           {'built_as': cls_name, 'document_is': natural, 'exc': [c.__name__ for c in type(err).__mro__[:2]],
                            'completed_before': pre_completed, 'completed_after': post_completed},
                           {'type': 'forced', 'ro_txt': ro_txt, 'msg_txt': msg_txt, 'cls': cls_name},
                           msg_kind=cls_name, status='built-as-another-class' if natural != cls_name else 'own-class')
    return err


MESSAGE_CLASSES = ('StorySend', 'StoryAppend', 'StoryDelete', 'StoryInsert', 'StoryMove', 'StoryReplace', 'ItemDelete',
                   'ItemInsert', 'ItemMoveMultiple', 'ItemReplace', 'RunningOrderReplace', 'MetaDataReplace', 'ReadyToAir',
                   'RunningOrderEnd', 'EAStoryReplace', 'EAItemReplace', 'EAStoryDelete', 'EAItemDelete', 'EAStoryInsert',
                   'EAItemInsert', 'EAStorySwap', 'EAItemSwap', 'EAStoryMove', 'EAItemMove')


def forced_types(s, n):
    """Typed constructors over documents of every kind, with and without a dropped element."""
    for i in range(n):
        if not s.mine(i):
            continue
        rng = s.rng('forced', i)
        pool = gen.text_pool('plain')
        ro_txt = gen.rand_ro(rng, n_stories=rng.randint(1, 4), pool=pool, message_id=1)
        kind = rng.choice(B.ALL_KINDS)
        doc = gen.rand_message(rng, Abs(ro_txt), kind, 10, gen.Ids('T%d.' % i), pool=pool,
                               shape_weights=(0.8, 0.1, 0.1, 0.0))
        if rng.random() < 0.5:
            doc = gen.drop_one_element(rng, doc)
        for cls_name in rng.sample(MESSAGE_CLASSES, 6):
            if hasattr(s.mt, cls_name):
                judge_forced(s, ro_txt, doc, cls_name)


def duplicate_id_cases(s):
    """Messages that leave two stories with one ID behind, and running orders that already hold such a pair
    met by every kind of message: whatever raises must not have changed anything."""
    from ..build import BLANK, E
    idx = 0
    new = lambda i, n=1: gen.simple_story(i, n)
    ro_txt = gen.grid_ro(['A', 'B', 'C'], 'before', pretty=False)
    cases = [('roStoryAppend', dict(carried=[new('B')])),
             ('roStoryAppend', dict(carried=[new('N1'), new('N1')])),
             ('roStoryReplace', dict(target='A', carried=[new('C')])),
             ('EAStoryReplace', dict(target='A', carried=[new('N1'), new('B')])),
             ('roStoryReplace', dict(target='A', carried=[new('A'), new('A')]))]
    for kind, kw in cases:
        idx += 1
        if s.mine(idx):
            K.run_case(s, ro_txt, kind, kw, ctx={'duplicates': 'created'})
    idx += 1
    if s.mine(idx):
        rr = gen.grid_ro(['X', 'Y', 'X'], 'none').replace('roCreate', 'roReplace').replace(
            '<messageID>1</messageID>', '<messageID>9</messageID>')
        s.step(s.load(ro_txt), rr, {'duplicates': 'created by roReplace'})
    for names in (['A', 'X', 'B', 'X'], ['X', 'X']):
        dup_txt = gen.grid_ro(names, 'before', pretty=False)
        cases = [('roStoryDelete', dict(ids=['A'])), ('roStoryDelete', dict(ids=['X'])), ('roStoryDelete', dict(ids=['gone'])),
                 ('roStoryAppend', dict(carried=[new('N1')])), ('roStoryInsert', dict(target='X', carried=[new('N1')])),
                 ('roStoryMove', dict(ids=['X'], target=BLANK)), ('EAStorySwap', dict(ids=['A', 'X'], target=BLANK)),
                 ('roItemInsert', dict(story_ref='X', target=BLANK, carried=[B.item('n1', 'x')])),
                 ('roItemDelete', dict(story_ref='A', ids=['A.0'])),
                 ('roStorySend', dict(story_ref='X', body=[E('p', 'sent')], fields=['BODY'])),
                 ('roMetadataReplace', dict(carried=[E('roSlug', 'new slug')])),
                 ('roReadyToAir', dict()), ('roDelete', dict()),
                 # several IDs in one delete, the repeated one not first: all of it or none of it
                 ('roStoryDelete', dict(ids=['A', 'X'])), ('roStoryDelete', dict(ids=['B', 'gone', 'X'])),
                 ('EAStoryDelete', dict(ids=['A', 'X'])), ('EAStoryDelete', dict(ids=['B', 'X', 'A'])),
                 ('EAStoryMove', dict(ids=['A', 'X'], target=BLANK)), ('EAStoryMove', dict(ids=['B', 'X'], target='A'))]
        for kind, kw in cases:
            idx += 1
            if s.mine(idx):
                K.run_case(s, dup_txt, kind, kw, ctx={'duplicates': 'present'})
    # one storyID twice, the two occurrences holding different items: item messages for that story
    two = B.ro_doc('RO', 1, [gen.simple_story('A', 1), B.story('X', 'first', [B.item('x1', 'a'), B.item('x2', 'b')]),
                            gen.simple_story('B', 1), B.story('X', 'second', [B.item('y1', 'c')])])
    for kind, kw in [('roItemInsert', dict(story_ref='X', target='x1', carried=[B.item('n1', 'x')])),
                     ('roItemInsert', dict(story_ref='X', target='y1', carried=[B.item('n1', 'x')])),
                     ('roItemReplace', dict(story_ref='X', target='x2', carried=[B.item('n2', 'x')])),
                     ('roItemReplace', dict(story_ref='X', target='y1', carried=[B.item('n2', 'x')])),
                     ('roItemDelete', dict(story_ref='X', ids=['x1'])), ('roItemDelete', dict(story_ref='X', ids=['x1', 'y1'])),
                     ('EAItemInsert', dict(story_ref='X', target='x2', carried=[B.item('n3', 'x')])),
                     ('EAItemDelete', dict(story_ref='X', ids=['x2', 'gone'])),
                     ('roItemMoveMultiple', dict(story_ref='X', ids=['x2'], target='x1')),
                     ('EAItemSwap', dict(story_ref='X', ids=['x1', 'x2']))]:
        idx += 1
        if s.mine(idx):
            K.run_case(s, two, kind, kw, ctx={'duplicates': 'one story ID twice, different items'})
    # the same inside one story: items i1 d i2 d
    for inames in (['i1', 'd', 'i2', 'd'], ['d', 'd', 'i1']):
        st = B.story('S', 'slug', [B.item(n_, 'x%d' % k_) for k_, n_ in enumerate(inames)])
        dup_txt = B.ro_doc('RO', 1, [gen.simple_story('P', 1), st, gen.simple_story('Q', 1)])
        cases = [('roItemDelete', dict(story_ref='S', ids=['i1', 'd'])), ('roItemDelete', dict(story_ref='S', ids=['i1', 'gone', 'd'])),
                 ('EAItemDelete', dict(story_ref='S', ids=['i1', 'd'])), ('EAItemDelete', dict(story_ref='S', ids=['d', 'i1'])),
                 ('roItemMoveMultiple', dict(story_ref='S', ids=['i1', 'd'], target=BLANK)),
                 ('EAItemMove', dict(story_ref='S', ids=['i1', 'd'], target=BLANK)),
                 ('roItemInsert', dict(story_ref='S', target='d', carried=[B.item('n1', 'x')])),
                 ('roItemReplace', dict(story_ref='S', target='i1', carried=[B.item('d', 'x'), B.item('n2', 'y')])),
                 ('EAItemSwap', dict(story_ref='S', ids=['i1', 'd']))]
        for kind, kw in cases:
            idx += 1
            if s.mine(idx):
                K.run_case(s, dup_txt, kind, kw, ctx={'duplicates': 'present in a story'})
    s.hist['duplicate_id_cases'] = idx


def replay(s, data):
    w = data['witness']
    if w.get('type') == 'collection-state':
        return judge_collection_state(s, w['docs'], 0)
    if w.get('type') == 'forced':
        judge_forced(s, w['ro_txt'], w['msg_txt'], w['cls'])
        return
    K.replay_transition(s, data)


def run(s):
    K.hostile_callers(s)
    K.suite_workload(s)
    K.fixtures_workload(s)
    K.collision_cases(s)
    K.recreate_cases(s)
    K.huge_cases(s, 2 if s.tier == 'quick' else 12)
    K.large_cases(s, 24 if s.tier == 'quick' else 600, 'both')
    K.pair_histories(s)
    q = s.tier == 'quick'
    K.story_grid(s, 3 if q else 4, layouts=('none', 'everywhere') if q else K.LAYOUTS, pretties=(True,) if q else (False, True),
                 full=not q)
    K.item_grid(s, 3 if q else 4, pretties=(True,) if q else (False, True), full=not q)
    for i in range(10 if q else 300):
        if s.mine(i):
            rng = s.rng('state', i)
            pool = gen.text_pool('plain')
            ro_txt = gen.rand_ro(rng, n_stories=rng.randint(2, 5), pool=pool, ed_start='wild')
            for kind, shapes, kw in gen.shape_product(rng, Abs(ro_txt), gen.Ids('P%d.' % i), pool):
                K.run_case(s, ro_txt, kind, kw, pretty=rng.random() < 0.5, ctx={'shapes': shapes})
    K.fuzz(s, 120 if q else 10000, K.kind_weights(1, 1, 0.2), steps=(5, 25),
           shape_weights=(0.45, 0.3, 0.2, 0.05), selfref=0.15, ro_kw={'ed_start': 'wild'})
    # messages that lack a tag the schema requires (one element dropped, anywhere)
    K.fuzz(s, 200 if q else 8000, K.kind_weights(1, 1, 0.3), steps=(6, 20),
           shape_weights=(0.9, 0.05, 0.05, 0.0), selfref=0.02, drop=0.6)
    collections(s, 80 if q else 6000)
    odd_timing_inserts(s, 3 if q else 60)
    forced_types(s, 400 if q else 20000)
    K.idless_cases(s)
    K.story_grid(s, 3, layouts=('none',), pretties=(False,), kmax=2, full=False, names=K.HOSTILE_NAMES_C)
    K.item_grid(s, 3, pretties=(False,), kmax=2, full=False, inters=(False,), item_names=K.HOSTILE_NAMES_C)
    duplicate_id_cases(s)


def gates(agg, tier):
    r = []
    K.need(agg, r, agg['counts'].get('add_raise', 0) > 0, 'no raising add was observed')
    for k in RAISING_KINDS:
        K.need(agg, r, any(("'%s'" % k) in sg and "'raise'" in sg for sg in agg['sigs']),
               'no raising %s observed' % k)
    K.need(agg, r, agg['hist'].get('outcome:raise:MosMergeError', 0) > 0, 'no MosMergeError observed')
    K.need(agg, r, agg['hist'].get('forced:raise', 0) > 0, 'no raising add of a message built through a typed constructor observed')
    return r
