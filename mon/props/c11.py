"""C11 - a collection is accepted exactly when it describes one running order."""
import itertools
import os
import shutil
import sys
import tempfile

from .. import build as B
from .. import gen
from . import common as K

META = {
    'rule': ('Exhaustive grid of message multisets: #roCreate 0..3 x #roDelete 0..3 x #other messages 0..3 x #roReplace '
             '0..1 x running-order IDs {one, two} x allow_incomplete {False, True}, each in 2 input orders, built with '
             'from_strings (thorough: also from_files and the fake S3, and random larger multisets) - in FRESH '
             'interpreters started without flags, with -O (thorough: and -OO); the worker reports __debug__ so the '
             'evidence shows the flag took effect. Oracle: accept <=> n>=1 and one roID and #roCreate=1 and '
             '#roDelete<=1 and (allow_incomplete or #roDelete=1); otherwise InvalidMosCollection (not IndexError, '
             'AssertionError or silent acceptance). On acceptance mc.ro is that roCreate and no remaining reader is a '
             'RunningOrder. Signature = (configuration, counts vector, id count, allow_incomplete, expected, outcome).'),
    'exhaustive_part': 'the whole 4x4x4x2x2x2 count grid in every interpreter configuration',
    'workers': {'quick': 4, 'thorough': 8},
    'watchdog': {'quick': 600, 'thorough': 3600},
    'configs': [
        {'name': 'default', 'pyflags': (), 'workers': 4},
        {'name': 'O', 'pyflags': ('-O',), 'workers': 4},
        {'name': 'OO', 'pyflags': ('-OO',), 'workers': 2},
    ],
    'assumptions': ['the harness itself uses no assert statement'],
}


def build_docs(rng, n_create, n_delete, n_other, n_replace, two_ids, dup_ids=False, completed_create=False, blank_id=False):
    docs = []
    mid = [0]

    def nxt():
        # dup_ids: message IDs may repeat (several messages - the roCreate included - share one)
        mid[0] += rng.randint(0, 1) if dup_ids else rng.randint(1, 5)
        return max(mid[0], 1)
    for k in range(n_create):
        docs.append(gen.grid_ro(['A', 'B'], 'none').replace('<messageID>1</messageID>',
                                                              '<messageID>%d</messageID>' % nxt()))
        if completed_create:
            # a completed running order that was written out (it carries the record of ITS roDelete: that
            # record is content of the document, not a roDelete message of the list)
            docs[-1] = docs[-1].replace('</mos>', '<mosromgrmeta><roDelete><roID>RO</roID></roDelete></mosromgrmeta></mos>')
    for k in range(n_other):
        kind = rng.choice(['roStoryAppend', 'roReadyToAir', 'roMetadataReplace', 'EAStoryDelete', 'roStorySend'])
        if kind == 'roStoryAppend':
            docs.append(B.msg_doc(kind, nxt(), carried=[gen.simple_story('N%d' % k, 1)]))
        elif kind == 'roMetadataReplace':
            docs.append(B.msg_doc(kind, nxt(), carried=[B.E('roSlug', 'x')]))
        elif kind == 'EAStoryDelete':
            docs.append(B.msg_doc(kind, nxt(), ids=['A']))
        elif kind == 'roStorySend':
            docs.append(B.msg_doc(kind, nxt(), story_ref='B', body=[B.E('p', 'x')], fields=['BODY']))
        else:
            docs.append(B.msg_doc(kind, nxt()))
    for k in range(n_replace):
        docs.append(gen.grid_ro(['R'], 'none').replace('roCreate', 'roReplace')
                    .replace('<messageID>1</messageID>', '<messageID>%d</messageID>' % nxt()))
    for k in range(n_delete):
        docs.append(B.msg_doc('roDelete', nxt() + (0 if dup_ids else 1000)))
    if blank_id:
        # the ONE running-order ID every message shares is the blank one
        docs = [d.replace('<roID>RO</roID>', '<roID/>') for d in docs]
    numeric = (not blank_id) and rng.random() < 0.25
    if numeric:
        # running-order IDs are text: "12", "012" and "+12" name three running orders
        docs = [d.replace('<roID>RO</roID>', '<roID>12</roID>') for d in docs]
    if two_ids and len(docs) >= 2:
        j = rng.randrange(len(docs))
        if numeric:
            docs[j] = docs[j].replace('<roID>12</roID>', rng.choice(['<roID>012</roID>', '<roID>+12</roID>', '<roID>12.0</roID>']), 1)
        docs[j] = docs[j].replace('<roID>RO</roID>', rng.choice(['<roID>OTHER</roID>', '<roID />', '<roID> RO</roID>', '<roID>ro</roID>']), 1)
    if rng.random() < 0.5:
        # text outside ASCII somewhere in some of the documents (a comment, a slug): irrelevant to what a collection is
        docs = [d.replace('<mos>', '<mos><!-- Caf\u00e9 \u2615 n\u00ba %d -->' % k_, 1) if rng.random() < 0.6 else d
                for k_, d in enumerate(docs)]
    if rng.random() < 0.3:
        # the messages of one running order may come from different senders (a stand-by NCS after a fail-over,
        # several MOS devices): irrelevant to what a collection is
        docs = [d.replace('<mosID>MOS ID</mosID>', '<mosID>%s</mosID><ncsID>%s</ncsID>' % (
            rng.choice(['MOS ID', 'MOS B', 'prompter.studio1.mos']), rng.choice(['NCS1', 'NCS2', 'ncs.backup'])), 1) for d in docs]
    if rng.random() < 0.5 and len(docs) >= 2:
        # hand the message IDs out again in a random order: the roCreate need not be the first message
        import re
        ids_ = [re.search(r'<messageID>(\d+)</messageID>', d).group(1) for d in docs]
        rng.shuffle(ids_)
        docs = [re.sub(r'<messageID>\d+</messageID>', '<messageID>%s</messageID>' % i, d, 1) for d, i in zip(docs, ids_)]
    return docs


def judge(s, docs, allow_incomplete, how, cfg, vec, tmpdir):
    from xml.etree import ElementTree as ET
    from ..spec import classify_doc
    classes = [classify_doc(ET.fromstring(d)) for d in docs]
    roids = set()
    for d in docs:
        root = ET.fromstring(d)
        for c in root:
            r = c.find('roID')
            if r is not None:
                roids.add(r.text)
    n_c = classes.count('RunningOrder')
    n_d = classes.count('RunningOrderEnd')
    allowed = allow_incomplete is True        # 'omitted' (keyword not passed): incompleteness is not allowed
    accept = (len(docs) >= 1 and len(roids) == 1 and n_c == 1 and n_d <= 1 and (allowed or n_d == 1))
    mc, err = K.make_collection(s, docs, how, allow_incomplete, tmpdir)
    got = 'accepted' if mc is not None else type(err).__name__
    want = 'accepted' if accept else 'InvalidMosCollection'
    s.evaluations += 1
    s.note_sig((cfg, how, vec, len(roids), allow_incomplete, want))
    s.hist['validation:%s' % got] += 1
    wit = {'type': 'validate', 'docs': docs, 'allow_incomplete': allow_incomplete, 'how': how}
    det = {'config': cfg, 'debug': __debug__, 'counts': vec, 'ro_ids': len(roids), 'allow_incomplete': allow_incomplete,
           'expected': want, 'got': got}
    if got != want:
        s.custom_violation('validation-outcome-differs' if accept or got == 'accepted' else 'wrong-exception-for-invalid-collection',
                           det, wit, status='%s/%s' % (cfg, want))
        return
    if mc is not None:
        create_id = [K.message_id_of(d) for d, c in zip(docs, classes) if c == 'RunningOrder'][0]
        ok_ro = type(mc.ro).__name__ == 'RunningOrder' and mc.ro.message_id == create_id
        readers_ok = all(mr.mos_type.__name__ != 'RunningOrder' for mr in mc.mos_readers) and \
            sorted((mr.message_id, mr.mos_type.__name__) for mr in mc.mos_readers) == sorted(
                (K.message_id_of(d), c) for d, c in zip(docs, classes) if c != 'RunningOrder')
        if not ok_ro or not readers_ok:
            s.custom_violation('accepted-collection-has-wrong-ro-or-readers', det, wit, status=cfg)
    if len(s.samples) < 3 and s.evaluations % 97 == 0:
        s.samples.append(det)


def judge_reused_list(s, docs, cfg, vec):
    """The public constructor MosCollection(readers) over ONE list object, shown to it several times (a strict
    attempt, then a retry that allows an incomplete collection, then the strict one again): every verdict is
    the one the list deserves - validating a list must not consume it."""
    import mosromgr.moscollection as mcmod
    from xml.etree import ElementTree as ET
    from ..spec import classify_doc
    from .. import events as EV
    classes = [classify_doc(ET.fromstring(d)) for d in docs]
    roids = set()
    for d in docs:
        for c in ET.fromstring(d):
            r = c.find('roID')
            if r is not None:
                roids.add(r.text)
    n_c, n_d = classes.count('RunningOrder'), classes.count('RunningOrderEnd')
    EV.STATE['quiet'] = EV.STATE.get('quiet', 0) + 1
    try:
        try:
            readers = sorted(mcmod.MosReader.from_string(d) for d in docs)
        except Exception:
            return
        got = []
        for allow in (False, True, False):
            try:
                mcmod.MosCollection(readers, allow_incomplete=allow)
                got.append('accepted')
            except Exception as e:
                got.append(type(e).__name__)
    finally:
        EV.STATE['quiet'] -= 1
    want = []
    for allow in (False, True, False):
        ok = len(docs) >= 1 and len(roids) == 1 and n_c == 1 and n_d <= 1 and (allow or n_d == 1)
        want.append('accepted' if ok else 'InvalidMosCollection')
    s.evaluations += 1
    s.note_sig((cfg, 'reused-list', vec, tuple(want), got == want))
    s.hist['reused_list_cases'] += 1
    if got != want:
        s.custom_violation('validation-outcome-differs', {'config': cfg, 'counts': vec, 'same_list_shown': ['strict', 'allow_incomplete', 'strict'],
                                                          'expected': want, 'got': got},
                           {'type': 'validate-reused', 'docs': docs}, status=cfg + '/reused-list')


def run(s):
    K.hostile_callers(s)
    q = s.tier == 'quick'
    cfg = os.environ.get('VERIF_CFG', 'default')
    s.hist['cfg:%s __debug__=%s optimize=%s' % (cfg, __debug__, sys.flags.optimize)] += 1
    if cfg == 'OO' and q:
        return
    tmpdir = tempfile.mkdtemp(prefix='verif-c11-')
    try:
        idx = 0
        for n_c, n_d, n_o, n_r, two, allow in itertools.product(range(4), range(4), range(4), range(2),
                                                                (False, True), (False, True, 'omitted')):
            cell = n_c * 5 + n_d * 3 + n_o * 2 + n_r + (1 if two else 0)
            for order in (0, 1):
                idx += 1
                if not s.mine(idx):
                    continue
                rng = s.rng('grid', n_c, n_d, n_o, n_r, two)
                docs = build_docs(rng, n_c, n_d, n_o, n_r, two, dup_ids=(idx % 3 == 0), completed_create=(idx % 7 == 5),
                                  blank_id=(idx % 5 == 2))
                s.hist['lists_with_a_completed_roCreate'] += int(idx % 7 == 5 and n_c > 0)
                if order:
                    docs = list(reversed(docs))
                # quick: one constructor per case, rotating so that every (counts, allow_incomplete) cell meets each
                # constructor somewhere (idx % 3 alone is in lock-step with the allow_incomplete x order loops)
                rot = cell + ['False', 'True', 'omitted'].index(str(allow)) + order
                hows = (('strings', 'files', 's3')[rot % 3],) if q else ('strings', 'files', 's3')
                for how in hows:
                    if how == 's3' and not docs:
                        pass
                    judge(s, docs, allow, how, cfg, (n_c, n_d, n_o, n_r, two), tmpdir)
                if allow is False and order == 0 and docs:
                    judge_reused_list(s, docs, cfg, (n_c, n_d, n_o, n_r, two))
        # one message whose running-order ID is blank (or blank-looking), at every position of the message order,
        # among messages of the running order RO: two running-order IDs, rejected wherever the odd one stands
        base = build_docs(s.rng('positions'), 1, 1, 3, 0, False)
        base = [d for d in base if '<roID>RO</roID>' in d]
        pidx = 0
        for pos in range(len(base)):
            for odd in ('<roID/>', '<roID></roID>', '<roID> </roID>', '<roID>ro</roID>', '<roID>RO </roID>'):
                for allow in (True, False):
                    pidx += 1
                    if not s.mine(pidx):
                        continue
                    import re as _re
                    order_ = sorted(range(len(base)), key=lambda k_: K.message_id_of(base[k_]))
                    docs = list(base)
                    docs[order_[pos]] = docs[order_[pos]].replace('<roID>RO</roID>', odd, 1)
                    for how in ('strings', 'files', 's3'):
                        judge(s, docs, allow, how, cfg, ('odd-roID-at-position', pos, odd), tmpdir)
                    s.hist['odd_roID_position_cases'] += 1
        # the same verdicts through `mosromgr merge`: status 2 exactly for the rejected collections
        import contextlib, io
        import mosromgr.cli as cli
        n_cli = 0
        for n_c, n_d, n_o, two, inc, ns in itertools.product(range(3), range(3), range(2), (False, True),
                                                             (False, True), (False, True)):
            n_cli += 1
            if not s.mine(n_cli):
                continue
            rng = s.rng('cli', n_c, n_d, n_o, two)
            docs = build_docs(rng, n_c, n_d, n_o, 0, two)
            if not docs:
                continue
            paths = []
            for k, d in enumerate(docs):
                p_ = os.path.join(tmpdir, 'cli%d-%d.mos.xml' % (n_cli, k))
                open(p_, 'w', encoding='utf-8').write(d)
                paths.append(p_)
            mc, err = K.make_collection(s, docs, 'strings', inc, tmpdir)
            argv = ['merge', '-f'] + paths + (['-i'] if inc else []) + (['-n'] if ns else [])
            o, e = io.StringIO(), io.StringIO()
            with contextlib.redirect_stdout(o), contextlib.redirect_stderr(e):
                try:
                    rc = cli.main(argv)
                except SystemExit as ex:
                    rc = ex.code
                except Exception as ex:
                    rc = 'EXC:' + type(ex).__name__
            from .. import events as EV
            EV.drain()
            s.evaluations += 1
            s.note_sig((cfg, 'cli', (n_c, n_d, n_o, two), inc, ns, mc is not None))
            s.hist['validation_via_cli'] += 1
            if mc is None and rc != 2:
                s.custom_violation('cli-accepts-a-collection-the-library-rejects',
                                   {'counts': (n_c, n_d, n_o, two), 'incomplete': inc, 'non_strict': ns, 'rc': rc,
                                    'library': type(err).__name__},
                                   {'type': 'validate', 'docs': docs, 'allow_incomplete': inc, 'how': 'strings', 'argv': argv},
                                   status='cli')
            for p_ in paths:
                os.unlink(p_)
        if not q:
            for i in range(10000):
                if not s.mine(i):
                    continue
                rng = s.rng('rand', i)
                docs = build_docs(rng, rng.choice([0, 1, 1, 1, 2]), rng.choice([0, 1, 1, 2]), rng.randint(0, 12),
                                  rng.choice([0, 0, 1, 2]), rng.random() < 0.2)
                rng.shuffle(docs)
                judge(s, docs, rng.random() < 0.5, rng.choice(['strings', 'files', 's3']), cfg,
                      ('random', min(len(docs), 9)), tmpdir)
    finally:
        shutil.rmtree(tmpdir, ignore_errors=True)


def replay(s, data):
    w = data['witness']
    if w.get('type') == 'validate-reused':
        return judge_reused_list(s, w['docs'], os.environ.get('VERIF_CFG', 'default'), 'replay')
    tmpdir = tempfile.mkdtemp(prefix='verif-c11-')
    try:
        judge(s, w['docs'], w['allow_incomplete'], w.get('how', 'strings'), os.environ.get('VERIF_CFG', 'default'),
              ('replay',), tmpdir)
    finally:
        shutil.rmtree(tmpdir, ignore_errors=True)


def gates(agg, tier):
    r = []
    keys = [k for k in agg['hist'] if 'cfg:' in k]
    K.need(agg, r, any('__debug__=True' in k for k in keys), 'no run with assertions enabled')
    K.need(agg, r, any('__debug__=False' in k for k in keys), 'the -O configuration did not take effect (no __debug__=False run)')
    K.need(agg, r, agg['hist'].get('validation:accepted', 0) > 0, 'no collection was accepted')
    K.need(agg, r, agg['hist'].get('validation:InvalidMosCollection', 0) > 0, 'no collection was rejected')
    # every constructor met every allow_incomplete value on a list that deserves to be accepted and on one that does not
    for how in ('strings', 'files', 's3'):
        for allow in ('False', 'True', "'omitted'"):
            for want in ('accepted', 'InvalidMosCollection'):
                K.need(agg, r, any(("'%s'" % how) in sg and (", %s, '%s')" % (allow, want)) in sg for sg in agg['sigs']),
                       'constructor %s never met allow_incomplete=%s on a list expected to be %s' % (how, allow, want))
    for cfg in ('default', 'O'):
        n = sum(1 for sg in agg['sigs'] if sg.startswith("('%s'" % cfg))
        K.need(agg, r, n >= 512, 'configuration %s judged only %d distinct grid cells (< 512)' % (cfg, n))
    return r
