"""C04 - stories, items and metadata carried by a message arrive intact."""
from .. import build as B
from .. import gen
from ..build import E
from ..canon import Abs
from . import common as K

CARRYING = ('roStoryAppend', 'roStoryInsert', 'roStoryReplace', 'roStorySend', 'roItemInsert', 'roItemReplace',
            'EAStoryInsert', 'EAStoryReplace', 'EAItemInsert', 'EAItemReplace', 'roReplace', 'roMetadataReplace')

META = {
    'rule': ('Payload generator: 1-3 carried stories / items / metadata elements with nesting depth <= 5, attributes, '
             'mixed text and non-blank tails, markup-significant and non-BMP characters, paragraphs between items, '
             'storyBody at every position among the roStorySend children, storyItem also nested deeper (must not be '
             'renamed there), elements named like messages inside payloads. After each merge the canon of every '
             'carried element inside the running order is compared with its canon in the message text (roStorySend: '
             'retag + splice; roReplace: whole roCreate; roMetadataReplace: each carried element exactly once). '
             'Signature = (kind, status, shapes, position class, layout, sizes, outcome).'),
    'workers': {'quick': 12, 'thorough': 16},
    'watchdog': {'quick': 600, 'thorough': 3600},
    'assumptions': ['text placed directly inside storyBody or in its tail is outside the claim'],
}


def deep_story(rng, sid, pool):
    st = gen.new_story_for(rng, sid, pool, rich=True)
    for _ in range(rng.randint(0, 2)):
        st.insert(rng.randint(0, len(st)), gen.rich_blob(rng, rng.randint(2, 5), pool))
    return st


def storysend_variants(s, ro_txt, state, rng, pool):
    S = state.story_ids
    if not S:
        return
    for k in S[:3]:
        body = [E('p', rng.choice(pool)), gen.rand_item(rng, 'b1', pool, True, tag='storyItem'),
                E('p', None), E('wrap', None, gen.rand_item(rng, 'deep', pool, False, tag='storyItem')),
                gen.rand_item(rng, 'b2', pool, True, tag='storyItem'), gen.rich_blob(rng, 3, pool, 'storyBody')]
        others = [E('storySlug', rng.choice(pool)), E('storyNum', '3'), gen.rand_timing(rng, 'timed'),
                  gen.rich_blob(rng, 2, pool, 'mosAbstract')]
        for pos in range(-1, len(others) + 1):
            fields = (['BODY0'] + others) if pos < 0 else (others[:pos] + ['BODY'] + others[pos:])
            fields = [B.clone(f) if not isinstance(f, str) else f for f in fields]
            msg = B.msg_doc('roStorySend', 7, story_ref=k, body=[B.clone(b) for b in body], fields=fields,
                            pretty=rng.random() < 0.5)
            s.step(s.load(ro_txt), msg, {'storysend_body_pos': pos})
        # empty body / body with only paragraphs
        for body2 in ([], [E('p', 'only')]):
            msg = B.msg_doc('roStorySend', 7, story_ref=k, body=body2, fields=[E('storySlug', 'x'), 'BODY'])
            s.step(s.load(ro_txt), msg, {'storysend': 'small-body'})


def reuse(s, i):
    """The same message object merged, its carried part edited by later messages,
    then merged again into a fresh running order: what arrives must still be
    what the message text carries (the + monitor compares against msg.xml)."""
    from . import c13
    rng = s.rng('reuse', i)
    pool = gen.text_pool('plain')
    ids = gen.Ids('U%d.' % i)
    kind = CARRYING[i % len(CARRYING)]
    ro_txt = gen.rand_ro(rng, n_stories=rng.randint(2, 4), pool=pool)
    msg_txt = gen.rand_message(rng, Abs(ro_txt), kind, 50, ids, pool=pool, shape_weights=(1.0, 0, 0, 0), selfref=0)
    ctx = {'reuse': i, 'kind': kind}
    ro1 = s.load(ro_txt)
    m = s.load(msg_txt)
    ro1, err, _ = s.add(ro1, m)
    j = s.drain_and_judge(None, ctx)
    if err is not None or not j:
        return
    cur = j[-1][0]['post_xml']
    edits = c13.followups(rng, cur, c13.carried_story_ids(msg_txt), ids, pool, rng.randint(1, 3))
    c13.apply_all(s, ro1, cur, edits, ctx)
    ro2 = s.load(ro_txt)
    s.add(ro2, m)
    s.drain_and_judge(None, ctx)
    s.hist['reuse_cases'] += 1


def run(s):
    K.hostile_callers(s)
    K.suite_workload(s)
    K.fixtures_workload(s)
    K.collision_cases(s)
    for i in range(130 if s.tier == 'quick' else 5000):
        if s.mine(i):
            reuse(s, i)
    n_states = 40 if s.tier == 'quick' else 4000
    per = 4 if s.tier == 'quick' else 6
    for i in range(n_states):
        if not s.mine(i):
            continue
        rng = s.rng('state', i)
        pool = gen.text_pool('hostile')
        ro_txt = gen.rand_ro(rng, n_stories=rng.randint(1, 6), pool=pool, rich=True)
        if i % 4 == 3:
            # one story somewhere carries timing fields that are not numbers: irrelevant to what is delivered
            import re
            ro_txt = re.sub(r'<(TextTime|MediaTime|StoryDuration)>[^<]*</\1>',
                            lambda m_: '<%s>%s</%s>' % (m_.group(1), rng.choice(['0:45', '45s', '']), m_.group(1)), ro_txt, count=1)
            s.hist['states_with_non_numeric_timing'] += 1
        state = Abs(ro_txt)
        ids = gen.Ids('C%d.' % i)
        for kind in CARRYING:
            for j in range(per):
                msg = gen.rand_message(rng, state, kind, 20 + j, ids, pool=pool,
                                       shape_weights=(0.97, 0.01, 0.02, 0.0), selfref=0.0)
                s.step(s.load(ro_txt), msg, {'state': i})
        # deep payloads
        for kind in ('roStoryAppend', 'roStoryInsert', 'EAStoryInsert', 'roStoryReplace', 'EAStoryReplace'):
            t = rng.choice(state.story_ids) if state.story_ids else B.BLANK
            kw = {} if kind == 'roStoryAppend' else {'target': t}
            msg = B.msg_doc(kind, 30, carried=[deep_story(rng, ids.new(), pool) for _ in range(rng.randint(1, 3))],
                            pretty=rng.random() < 0.5, **kw)
            s.step(s.load(ro_txt), msg, {'state': i, 'deep': True})
        storysend_variants(s, ro_txt, state, rng, pool)
    K.fuzz(s, 60 if s.tier == 'quick' else 6000, K.kind_weights(1, 1, 1.0), steps=(5, 20), text='hostile',
           shape_weights=(0.95, 0.02, 0.03, 0.0))
    through_collection(s, 40 if s.tier == 'quick' else 2500)
    # carried stories / items whose ID tag is blank: they arrive all the same
    K.fuzz(s, 60 if s.tier == 'quick' else 3000, K.kind_weights(1, 1, 0.2), steps=(4, 12), text='plain',
           shape_weights=(0.95, 0.02, 0.03, 0.0), blank_carried=0.5)


def through_collection(s, n):
    """Carried content also arrives intact when the messages go through a collection built from
    strings - including strings that still hold an XML declaration naming another encoding."""
    from .. import events as EV
    for c in range(n):
        if not s.mine(c):
            continue
        rng = s.rng('coll', c)
        pool = gen.text_pool('hostile')
        ro_txt = gen.rand_ro(rng, n_stories=rng.randint(1, 4), pool=pool, message_id=1)
        state = Abs(ro_txt)
        ids = gen.Ids('Q%d.' % c)
        docs = [ro_txt]
        for k in range(rng.randint(1, 5)):
            docs.append(gen.rand_message(rng, state, rng.choice(CARRYING), 10 + k, ids, pool=pool,
                                         shape_weights=(0.95, 0.02, 0.03, 0.0)))
        declared = c % 2 == 0
        if declared:
            docs = [('<?xml version="1.0" encoding="ISO-8859-1"?>\n' + d) if not d.lstrip().startswith('<?xml') and
                    '<!DOCTYPE' not in d else d for d in docs]
        judge_through_collection(s, docs, declared)


def judge_through_collection(s, docs, declared):
    from .. import events as EV
    mc, cerr = K.make_collection(s, docs, 'strings', True)
    if mc is None:
        return
    merr, _w = K.merge_collection(s, mc, False)
    fold_text, n_failed, ferr, applied = K.hand_fold(s, docs, False)
    EV.drain()
    s.evaluations += 1
    s.note_sig(('through-collection', declared, min(len(docs), 6), str(mc) == fold_text))
    s.hist['through_collection'] += 1
    if ferr is None and (merr is not None or str(mc) != fold_text):
        s.custom_violation('carried-content-differs-when-merged-through-a-collection',
                           {'declared_encoding_in_strings': declared, 'merge_exc': type(merr).__name__ if merr else None},
                           {'type': 'collection', 'docs': docs, 'declared': declared}, status='collection')


def replay(s, data):
    w = data['witness']
    if w.get('type') == 'collection':
        return judge_through_collection(s, w['docs'], w.get('declared', False))
    K.replay_transition(s, data)


def gates(agg, tier):
    r = []
    for k in CARRYING:
        K.need(agg, r, any(("'%s'" % k) in sg and ("'ret'" in sg or "'warn'" in sg) for sg in agg['sigs']),
               'carrying kind %s never merged successfully' % k)
    return r
