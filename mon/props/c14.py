"""C14 - every reachable running order serialises to XML that reads back identically."""
from .. import build as B
from .. import gen
from . import common as K

META = {
    'rule': ('Random histories of all 24 kinds (incl. roReplace, roMetadataReplace, roStorySend, roDelete) over text '
             'drawn from an alphabet with & < > " \', tabs, newlines, non-BMP characters, combining marks, padded '
             'strings and - as a separately labelled class - U+000D. At the initial state and after every add '
             '(returned or raised) the monitor records str(ro), re-reads it with MosFile.from_string and compares: '
             'str(ro) == the tree\'s serialisation; re-read is a RunningOrder; str(re-read) == str(ro); same '
             'completed flag; exactly one roCreate and at most one mosromgrmeta under the root; messageID unchanged; '
             'roID unchanged for messages addressed to that running order. Signature = transition signature.'),
    'workers': {'quick': 12, 'thorough': 16},
    'watchdog': {'quick': 600, 'thorough': 3600},
}


def cli_state(s, i, tmpdir):
    from ..canon import Abs
    rng = s.rng('cli', i)
    pool = gen.text_pool('cr' if i % 2 else 'hostile')
    ids = gen.Ids('W%d.' % i)
    ro_txt = gen.rand_ro(rng, n_stories=rng.randint(1, 4), pool=pool, message_id=1)
    state = Abs(ro_txt)
    docs = [ro_txt]
    for k in range(rng.randint(1, 6)):
        docs.append(gen.rand_message(rng, state, K.weighted_kinds(rng, K.kind_weights(1, 1, 1.0, 0)), 10 + k, ids, pool=pool))
    judge_cli(s, docs, tmpdir, 'c14-%d' % i, 'cr' if i % 2 else 'hostile')


def judge_cli(s, docs, tmpdir, tag, label):
    rc, reread, lib, argv = K.cli_roundtrip(s, docs, tmpdir, tag)
    s.evaluations += 1
    s.note_sig(('cli-roundtrip', label, type(reread).__name__, rc))
    if lib is None:
        return
    wit = {'type': 'cli-roundtrip', 'docs': docs}
    if isinstance(reread, Exception) or type(reread).__name__ != 'RunningOrder':
        s.custom_violation('state-written-by-cli-does-not-read-back', {'got': type(reread).__name__,
                                                                       'msg': str(reread)[:150]}, wit, status='cli')
    elif str(reread) != str(lib):
        s.custom_violation('state-written-by-cli-reads-back-differently',
                           {'has_cr': '&#13;' in str(lib)}, wit, status='cli')


def judge_twice_merged(s, docs, strict2):
    """A collection merged a second time is one more reachable state: its text has one running-order element,
    at most one completion record, and reads back identically."""
    from .. import events as EV
    from ..canon import Abs
    mc, cerr = K.make_collection(s, docs, 'strings', True)
    if mc is None:
        return
    K.merge_collection(s, mc, False)
    K.merge_collection(s, mc, strict2)
    EV.drain()
    wit = {'type': 'twice-merged', 'docs': docs, 'strict2': strict2}
    s.evaluations += 1
    s.hist['twice_merged_collections'] += 1
    try:
        text = str(mc)
        a = Abs(text)
    except Exception as e:
        s.custom_violation('state-cannot-be-serialised', {'exc': type(e).__name__}, wit, status='twice-merged')
        return
    s.note_sig(('twice-merged', strict2, len(a.rcs), len(a.metas)))
    if len(a.rcs) != 1:
        s.custom_violation('roCreate-count', {'n': len(a.rcs)}, wit, status='twice-merged')
    if len(a.metas) > 1:
        s.custom_violation('several-completion-records', {'n': len(a.metas)}, wit, status='twice-merged')
    try:
        back = s.load(text)
        if type(back).__name__ != 'RunningOrder' or str(back) != text or bool(back.completed) != bool(mc.completed):
            s.custom_violation('roundtrip-differs', {'reread': type(back).__name__}, wit, status='twice-merged')
    except Exception as e:
        s.custom_violation('reread-failed', {'exc': type(e).__name__}, wit, status='twice-merged')


def under_failing_log_handler(s, n):
    """The host's log handler fails on every record: whatever an add does then - return or raise - it leaves a
    running order that serialises, reads back and holds exactly one running-order element."""
    from ..canon import Abs
    for i in range(n):
        if not s.mine(i):
            continue
        rng = s.rng('log-handler', i)
        pool = gen.text_pool('hostile')
        ro_txt = gen.rand_ro(rng, n_stories=rng.randint(1, 4), pool=pool)
        kind = ('roReplace', 'roStorySend', 'roMetadataReplace', 'roDelete', 'roStoryReplace', 'roStoryInsert', 'roStoryDelete',
                'EAStoryMove', 'roItemInsert', 'EAItemDelete')[i % 10]
        msg_txt = gen.rand_message(rng, Abs(ro_txt), kind, 30, gen.Ids('H%d.' % i), pool=pool,
                                   shape_weights=(0.7, 0.15, 0.15, 0.0))
        try:
            ro, m = s.load(ro_txt), s.load(msg_txt)
        except Exception:
            continue
        with K.failing_log_handler():
            s.add(ro, m)
        s.drain_and_judge(None, {'failing-log-handler': i, 'kind': kind})
        s.hist['adds_under_a_failing_log_handler'] += 1


def run(s):
    under_failing_log_handler(s, 40 if s.tier == 'quick' else 1500)
    K.reuse_objects(s, ('roReplace', 'roStorySend', 'roStoryAppend', 'roMetadataReplace', 'roDelete'), 20 if s.tier == 'quick' else 600)
    K.suite_workload(s)
    import shutil
    import tempfile
    tmpdir = tempfile.mkdtemp(prefix='verif-c14-')
    try:
        for i in range(60 if s.tier == 'quick' else 2500):
            if s.mine(i):
                cli_state(s, i, tmpdir)
    finally:
        shutil.rmtree(tmpdir, ignore_errors=True)
    K.fixtures_workload(s)
    K.pair_histories(s, text='hostile')
    q = s.tier == 'quick'
    w = K.kind_weights(1, 1, 1.0, 0.04)
    n = 240 if q else 20000
    for h in range(n):
        if not s.mine(h):
            continue
        text = 'cr' if h % 6 == 5 else 'hostile'
        K.fuzz_history(s, h, w, steps=(5, 30), text=text, direct=0.25, drop=0.1)
    s.hist['fuzz_histories_total'] = n
    for c in range(40 if q else 1500):
        if not s.mine(c):
            continue
        rng = s.rng('twice', c)
        pool = gen.text_pool('hostile')
        ro_txt = gen.rand_ro(rng, n_stories=rng.randint(1, 4), pool=pool, message_id=1)
        from ..canon import Abs as _Abs
        st_ = _Abs(ro_txt)
        ids_ = gen.Ids('T%d.' % c)
        docs = [ro_txt] + [gen.rand_message(rng, st_, K.weighted_kinds(rng, K.kind_weights(1, 1, 0.5, 0)), 10 + k, ids_, pool=pool)
                           for k in range(rng.randint(1, 5))]
        if rng.random() < 0.8:
            docs.append(B.msg_doc('roDelete', 90))
        judge_twice_merged(s, docs, rng.random() < 0.5)
    # histories that end with a roDelete addressed to another roID followed by more messages, a second roDelete included
    for h in range(40 if q else 1500):
        if not s.mine(h):
            continue
        rng = s.rng('twoends', h)
        pool = gen.text_pool('hostile')
        ro_txt = gen.rand_ro(rng, n_stories=rng.randint(0, 4), pool=pool)
        ro = s.load(ro_txt)
        from ..canon import Abs
        ids = gen.Ids('E%d.' % h)
        env_ = {'mos_id': None, 'ncs_id': 'NCS'} if rng.random() < 0.4 else {}      # an envelope without <mosID>
        msgs = [B.msg_doc('roDelete', 50, ro_id=rng.choice(['RO', 'ELSEWHERE', 'ELSEWHERE']), **env_)]
        if h % 3 == 1:
            # the roDelete envelope has no messageID element at all
            import re
            msgs[0] = re.sub(r'\s*<messageID>[^<]*</messageID>', '', msgs[0], count=1)
            s.hist['roDelete_without_messageID'] += 1
        msgs += [gen.rand_message(rng, Abs(ro_txt), rng.choice(B.ALL_KINDS), 60 + k, ids, pool=pool) for k in range(2)]
        msgs += [B.msg_doc('roDelete', 70, ro_id=rng.choice(['RO', 'ELSEWHERE']))]
        for m_ in msgs:
            ro, err, v, ev = s.step(ro, m_, {'two-ends': h})


def replay(s, data):
    w = data['witness']
    if w.get('type') == 'twice-merged':
        return judge_twice_merged(s, w['docs'], w['strict2'])
    if w.get('type') == 'cli-roundtrip':
        import shutil
        import tempfile
        tmpdir = tempfile.mkdtemp(prefix='verif-c14-')
        try:
            judge_cli(s, w['docs'], tmpdir, 'replay', 'replay')
        finally:
            shutil.rmtree(tmpdir, ignore_errors=True)
        return
    K.replay_transition(s, data)


def gates(agg, tier):
    r = []
    for k in ('roReplace', 'roMetadataReplace', 'roStorySend', 'roDelete'):
        K.need(agg, r, agg['hist'].get('kind:' + k, 0) > 0, 'no state after %s observed' % k)
    K.need(agg, r, agg['hist'].get('state_checks', 0) > 0, 'state round-trip facts never recorded')
    return r
