"""C12 - well-formed input fails only with the library's own exceptions."""
from .. import build as B
from .. import gen
from ..canon import Abs
from ..spec import classify_doc
from . import common as K

META = {
    'rule': ('The most hostile generator: all 24 kinds x full product of reference shapes {existing, unknown, blank, '
             'missing} per slot, repeated and self-referential IDs, equal swap operands, hostile IDs (prefixes of one '
             'another, markup characters, padded), running orders with any subset of timing metadata (none, '
             'mosExternalMetadata without mosPayload), long histories incl. ones that created duplicate IDs, and '
             'non-strict collections over such sequences (must run to the end). Refuting events: an exception leaving '
             '`ro + msg` that is not a MosMergeError for a schema-shaped message; an exception leaving classification '
             'of a well-formed document that is not a MosRoMgrException; any exception leaving a non-strict merge.'),
    'workers': {'quick': 12, 'thorough': 16},
    'watchdog': {'quick': 600, 'thorough': 3600},
    'assumptions': ['adding a roCreate to a running order, messages missing required tags and non-numeric message '
                    'IDs are outside the claim'],
}


def classify_docs(s, n):
    """Well-formed documents of every kind / EA shape / non-MOS XML."""
    from xml.etree import ElementTree as ET
    for i in range(n):
        if not s.mine(i):
            continue
        rng = s.rng('doc', i)
        pool = gen.text_pool('hostile')
        c = rng.random()
        if c < 0.5:
            kind = rng.choice(B.ALL_KINDS)
            doc = gen.rand_message(rng, Abs(gen.rand_ro(rng, n_stories=3, pool=pool)), kind, 5, gen.Ids('d'),
                                   pool=pool, shape_weights=(0.4, 0.2, 0.2, 0.2))
        elif c < 0.8:
            op = rng.choice(['INSERT', 'REPLACE', 'MOVE', 'DELETE', 'SWAP', 'FROB', 'insert', '', None])
            ea = B.E('roElementAction', attrib=({} if op is None else {'operation': op}))
            ea.append(B.E('roID', 'RO'))
            tsh = rng.choice(['none', 'empty', 'story', 'story+item', 'item'])
            if tsh != 'none':
                t = B.E('element_target')
                if 'story' in tsh:
                    t.append(B.E('storyID', 'A'))
                if 'item' in tsh:
                    t.append(B.E('itemID', 'i'))
                ea.append(t)
            ssh = rng.choice(['none', 'empty', 'storyID', 'itemID', 'story', 'item', 'both'])
            if ssh != 'none':
                src = B.E('element_source')
                if ssh in ('storyID', 'both'):
                    src.append(B.E('storyID', 'B'))
                if ssh in ('itemID', 'both'):
                    src.append(B.E('itemID', 'j'))
                if ssh == 'story':
                    src.append(gen.simple_story('N', 1))
                if ssh == 'item':
                    src.append(B.item('n', 'x'))
                ea.append(src)
            doc = B.to_text(B.envelope(3, ea), rng.random() < 0.5)
        else:
            doc = B.to_text(gen.rich_blob(rng, 3, pool, rng.choice(['mos', 'html', 'x'])))
        ns_applied = False
        if i % 6 == 5 and '<mos>' in doc:
            ns_applied = True
            # the whole document in a (default or prefixed) namespace: whatever the library makes of it, it says so
            # with its own exceptions
            doc = doc.replace('<mos>', rng.choice(['<mos xmlns="urn:mos:example">', '<mos xmlns="http://www.mosprotocol.com/">']), 1)
            s.hist['classified_documents_in_a_namespace'] += 1
        try:
            mo_ = s.load(doc)
            out = 'ok'
            if ns_applied and type(mo_).__name__ != 'RunningOrder':
                # ... and so does adding it to a running order (a roCreate as the right operand is outside the claim)
                ro_ = s.load(gen.grid_ro(['A', 'B'], 'none'))
                try:
                    ro_ + mo_
                except Exception as e2:
                    mro2 = [c.__name__ for c in type(e2).__mro__]
                    out = 'ok+' + type(e2).__name__
                    if 'MosRoMgrException' not in mro2:
                        s.custom_violation('foreign-exception-from-classification',
                                           {'exc': mro2[:2], 'msg': str(e2)[:200], 'where': 'adding the classified object'},
                                           {'type': 'classify', 'doc': doc, 'add': True}, msg_kind='namespaced')
                from .. import events as EV
                EV.drain()
        except Exception as e:
            out = type(e).__name__
            mro = [c.__name__ for c in type(e).__mro__]
            if 'MosRoMgrException' not in mro:
                s.custom_violation('foreign-exception-from-classification', {'exc': mro[:2], 'msg': str(e)[:200]},
                                   {'type': 'classify', 'doc': doc}, msg_kind=classify_doc(ET.fromstring(doc)))
        s.evaluations += 1
        s.note_sig(('classify', classify_doc(ET.fromstring(doc)), out))


def hostile_id_histories(s, n):
    for h in range(n):
        if not s.mine(h):
            continue
        rng = s.rng('hid', h)
        pool = gen.text_pool('hostile')
        sids = rng.sample(gen.HOSTILE_IDS, rng.randint(2, 6))
        ro_txt = gen.rand_ro(rng, story_ids=sids, n_stories=len(sids), pool=pool, ed_start='wild',
                             timing=rng.choice(['any', 'none', 'timed', 'wild', 'wild']))
        ro = s.load(ro_txt)
        cur = ro_txt
        ids = gen.Ids('X%d.' % h)
        for k in range(rng.randint(5, 30)):
            state = Abs(cur)
            kind = K.weighted_kinds(rng, K.kind_weights(1, 1, 0.3, 0.02))
            msg = gen.rand_message(rng, state, kind, 100 + k, ids, pool=pool,
                                   timing=rng.choice(['any', 'none', 'wild']),
                                   shape_weights=(0.5, 0.2, 0.25, 0.05), selfref=0.25, blank_carried=0.1)
            ro, err, v, ev = s.step(ro, msg, {'hostile-ids': h, 'step': k})
            if ev is not None and ev.get('post_xml'):
                cur = ev['post_xml']


def repeated_metadata_fields(s):
    """roMetadataReplace messages that give one header field twice (the same tag, the same mosSchema), met by
    running orders that have / do not have that field."""
    E = B.E
    idx = 0
    blk = lambda sch, v: E('mosExternalMetadata', None, E('mosScope', 'PLAYLIST'), E('mosSchema', sch), E('mosPayload', None, E('v', v)))
    for layout in ('none', 'before', 'between', 'everywhere'):
        ro_txt = gen.grid_ro(['A', 'B', 'C', 'D'], layout, pretty=False)
        for carried in ([E('roSlug', 'x'), E('roSlug', 'y')], [E('roEdStart', '2021-01-01T00:00:00'), E('roEdStart', '2022-01-01T00:00:00')],
                        [E('roChannel', 'c1'), E('roChannel', 'c2')], [E('macroIn', 'm1'), E('macroIn', 'm2'), E('macroIn', 'm3')],
                        [blk('http://between/2', '1'), blk('http://between/2', '2')], [blk('http://new/1', '1'), blk('http://new/1', '2')],
                        [E('roSlug', 'x'), blk('http://between/2', '1'), E('roTrigger', 't'), blk('http://between/2', '2'), E('roSlug', 'z')]):
            idx += 1
            if s.mine(idx):
                K.run_case(s, ro_txt, 'roMetadataReplace', dict(carried=[B.clone(c) for c in carried]), ctx={'repeated-fields': layout})
    s.hist['repeated_metadata_field_cases'] = idx


def ran_to_the_end(s, mc, docs):
    """What the one-by-one fold reaches after the long run of failing messages (the story appended after it,
    the completion) the collection has reached too."""
    from .. import events as EV
    fold_text, n_failed, ferr, applied = K.hand_fold(s, docs, False)
    EV.drain()
    if ferr is not None:
        return True
    got = str(mc)
    return ('after-the-run' in got) == ('after-the-run' in fold_text) and ('<mosromgrmeta>' in got) == ('<mosromgrmeta>' in fold_text)


def nonstrict_collections(s, n):
    for c in range(n):
        if not s.mine(c):
            continue
        rng = s.rng('coll', c)
        pool = gen.text_pool('plain')
        ro_txt = gen.rand_ro(rng, n_stories=rng.randint(1, 5), pool=pool, message_id=1, ed_start='wild',
                             timing=rng.choice(['any', 'none']))
        state = Abs(ro_txt)
        ids = gen.Ids('N%d.' % c)
        docs = [ro_txt]
        for k in range(rng.randint(3, 12)):
            kind = K.weighted_kinds(rng, K.kind_weights(1, 1, 0.3, 0.03))
            docs.append(gen.rand_message(rng, state, kind, 10 + k, ids, pool=pool, timing=rng.choice(['any', 'none']),
                                         shape_weights=(0.4, 0.3, 0.25, 0.05), selfref=0.3, blank_carried=0.15))
        if c % 4 == 1:
            # a long run of consecutive failing messages (edits that keep arriving for a story that is gone),
            # then messages that merge again: however many fail in a row, the merge runs to the end
            run_len = rng.choice([9, 10, 11, 12, 25, 60])
            for j_ in range(run_len):
                docs.append(rng.choice([
                    B.msg_doc('roItemInsert', 200 + j_, story_ref='gone-story', target=B.BLANK, carried=[B.item('g%d' % j_, 'x')]),
                    B.msg_doc('roStoryMove', 200 + j_, ids=['gone-story'], target=B.BLANK),
                    B.msg_doc('roItemReplace', 200 + j_, story_ref='gone-story', target='g', carried=[B.item('g%d' % j_, 'x')]),
                    B.msg_doc('EAStorySwap', 200 + j_, ids=['gone-story', 'gone-too'])]))
            docs.append(B.msg_doc('roStoryAppend', 400, carried=[gen.simple_story('after-the-run', 1)]))
            docs.append(B.msg_doc('roDelete', 401))
            s.hist['collections_with_a_long_failing_run'] += 1
        if rng.random() < 0.25 and len(docs) > 2:
            # two different messages share one messageID (applied in the order supplied)
            import re as _re
            a_, b_ = rng.sample(range(1, len(docs)), 2)
            ida = _re.search(r'<messageID>(\d+)</messageID>', docs[a_])
            if ida:
                docs[b_] = _re.sub(r'<messageID>\d+</messageID>', ida.group(0), docs[b_], 1)
        if rng.random() < 0.3:
            # durations that float() reads but that are not finite / not representable as a timedelta
            docs[0] = docs[0].replace('<MediaTime>', '<MediaTime>' + rng.choice(['nan', 'inf', '-inf', '1e15', '1e400']) + '</MediaTime><x>', 1) \
                .replace('</MediaTime>', '</x>', 1) if '<MediaTime>' in docs[0] else docs[0]
        mc, cerr, merr, wl = K.collection_merge(s, docs, strict=False, ctx={'collection': c})
        if mc is None and cerr is not None and 'MosRoMgrException' not in [x.__name__ for x in type(cerr).__mro__]:
            s.custom_violation('collection-of-well-formed-documents-cannot-be-built',
                               {'exc': [x.__name__ for x in type(cerr).__mro__][:2], 'msg': str(cerr)[:200]},
                               {'type': 'collection', 'docs': docs, 'strict': False}, status='construct')
        s.note_sig(('nonstrict', type(merr).__name__ if merr else 'ran-to-end',
                    min(sum(1 for w in wl if type(w.message).__name__ == 'MosMergeNonStrictWarning'), 4)))
        if merr is not None:
            s.custom_violation('non-strict-merge-did-not-run-to-the-end',
                               {'exc': [x.__name__ for x in type(merr).__mro__][:2], 'msg': str(merr)[:200]},
                               {'type': 'collection', 'docs': docs, 'strict': False}, status='non-strict')
        elif mc is not None and c % 4 == 1 and not ran_to_the_end(s, mc, docs):
            s.custom_violation('non-strict-merge-did-not-run-to-the-end',
                               {'exc': None, 'note': 'messages after a long run of failing ones were not merged'},
                               {'type': 'collection', 'docs': docs, 'strict': False, 'after_run': True}, status='non-strict')


def run(s):
    K.hostile_callers(s)
    K.suite_workload(s)
    K.fixtures_workload(s)
    K.huge_cases(s, 2 if s.tier == 'quick' else 12)
    K.pair_histories(s)
    q = s.tier == 'quick'
    for i in range(16 if q else 500):
        if s.mine(i):
            rng = s.rng('state', i)
            pool = gen.text_pool('hostile')
            ro_txt = gen.rand_ro(rng, n_stories=rng.randint(0, 5), pool=pool, timing=rng.choice(['any', 'none', 'timed']),
                                 ed_start='wild')
            for kind, shapes, kw in gen.shape_product(rng, Abs(ro_txt), gen.Ids('P%d.' % i), pool):
                K.run_case(s, ro_txt, kind, kw, pretty=rng.random() < 0.5, ctx={'shapes': shapes})
    K.story_grid(s, 3, layouts=('between',), pretties=(False,), full=False, timed=(False,))
    K.item_grid(s, 2, pretties=(False,), full=False, inters=(True,))
    K.idless_cases(s)
    repeated_metadata_fields(s)
    K.story_grid(s, 6, layouts=('none',), pretties=(False,), kmax=2, full=False, names=K.HOSTILE_NAMES_C)
    K.item_grid(s, 6, pretties=(False,), kmax=2, full=False, inters=(False,), item_names=K.HOSTILE_NAMES_C)
    K.fuzz(s, 150 if q else 6000, K.kind_weights(1, 1, 0.4, 0.02), steps=(10, 40), text='hostile',
           timing='any', shape_weights=(0.5, 0.2, 0.25, 0.05), selfref=0.25, blank_carried=0.06, direct=0.15,
           ro_kw={'ed_start': 'wild'})
    hostile_id_histories(s, 120 if q else 2500)
    nonstrict_collections(s, 200 if q else 5000)
    classify_docs(s, 800 if q else 40000)


def replay(s, data):
    w = data['witness']
    if w.get('type') == 'classify':
        try:
            mo_ = s.load(w['doc'])
            if w.get('add'):
                s.load(gen.grid_ro(['A', 'B'], 'none')) + mo_
        except Exception as e:
            mro = [c.__name__ for c in type(e).__mro__]
            if 'MosRoMgrException' not in mro:
                s.custom_violation('foreign-exception-from-classification', {'exc': mro[:2]}, w)
        s.evaluations += 1
        return
    if w.get('type') == 'collection':
        mc, cerr, merr, wl = K.collection_merge(s, w['docs'], False)
        if merr is not None:
            s.custom_violation('non-strict-merge-did-not-run-to-the-end', {'exc': type(merr).__name__}, w)
        elif w.get('after_run') and mc is not None and not ran_to_the_end(s, mc, w['docs']):
            s.custom_violation('non-strict-merge-did-not-run-to-the-end', {'exc': None}, w)
        return
    K.replay_transition(s, data)


def gates(agg, tier):
    r = []
    K.kinds_seen(agg, B.ALL_KINDS, r)
    K.need(agg, r, agg['counts'].get('add_raise', 0) > 0, 'no raising add observed')
    K.need(agg, r, K.sig_has(agg, "'classify'", "UnknownMosFileType"), 'no rejected classification observed')
    K.need(agg, r, K.sig_has(agg, "'selfref'"), 'no self-referential message observed')
    K.need(agg, r, K.sig_has(agg, "'nonstrict', 'ran-to-end'"), 'no non-strict collection merge completed')
    return r
