"""In-memory stand-in for boto3, installed at the mosromgr.utils.s3 boundary
(mosromgr.utils.s3.boto3 = this module).  Exercises the real lazy handle,
get_mos_files and get_file_contents.  Behaves like the service where it
matters: an empty listing yields one page without 'Contents'; pages are
non-empty otherwise; keys are returned in whatever order the bucket holds them.
"""

BUCKETS = {}        # bucket -> list of (key, bytes) in listing order
CALLS = {'client': 0, 'resource': 0, 'paginate': 0, 'get': 0, 'pages': 0}
CONFIG = {'page_size': 3}
# failpoints (the service failing part-way): FAIL['page'] = n -> the n-th page of the next listing raises a
# throttling ClientError once; FAIL['get'] = n -> the n-th GET from now on raises a connection error once
FAIL = {'page': None, 'get': None}


def _client_error(code):
    try:
        from botocore.exceptions import ClientError
        return ClientError({'Error': {'Code': code, 'Message': 'injected by the verification workload'},
                            'ResponseMetadata': {'HTTPStatusCode': 503}}, 'ListObjects')
    except Exception:
        return ConnectionError('injected: ' + code)


def reset():
    BUCKETS.clear()
    for k in CALLS:
        CALLS[k] = 0
    CONFIG['page_size'] = 3
    FAIL['page'] = FAIL['get'] = None


def put(bucket, key, body):
    if isinstance(body, str):
        body = body.encode('utf-8')
    BUCKETS.setdefault(bucket, []).append((key, body))


class _Paginator:
    def paginate(self, Bucket, Prefix='', **kw):
        CALLS['paginate'] += 1
        keys = [k for k, _ in BUCKETS.get(Bucket, []) if k.startswith(Prefix)]
        n = max(1, int(CONFIG['page_size']))
        if not keys:
            CALLS['pages'] += 1
            yield {'IsTruncated': False, 'Name': Bucket, 'Prefix': Prefix}
            return
        for pno, i in enumerate(range(0, len(keys), n), start=1):
            CALLS['pages'] += 1
            if FAIL['page'] is not None and pno == FAIL['page']:
                FAIL['page'] = None
                raise _client_error('SlowDown')
            yield {'IsTruncated': i + n < len(keys), 'Name': Bucket, 'Prefix': Prefix,
                   'Contents': [{'Key': k, 'Size': 1} for k in keys[i:i + n]]}


class _Client:
    def get_paginator(self, name):
        if name != 'list_objects':
            raise ValueError(name)
        return _Paginator()


class _Body:
    def __init__(self, b):
        self._b = b

    def read(self):
        return self._b


class _Object:
    def __init__(self, bucket, key):
        self.bucket, self.key = bucket, key

    def get(self):
        CALLS['get'] += 1
        if FAIL['get'] is not None:
            FAIL['get'] -= 1
            if FAIL['get'] <= 0:
                FAIL['get'] = None
                raise ConnectionResetError('injected: connection reset while reading %s' % self.key)
        for k, b in BUCKETS.get(self.bucket, []):
            if k == self.key:
                return {'Body': _Body(b)}
        raise KeyError('NoSuchKey: %s/%s' % (self.bucket, self.key))


class _Resource:
    def Object(self, bucket, key):
        return _Object(bucket, key)


def client(name, *a, **kw):
    CALLS['client'] += 1
    return _Client()


def resource(name, *a, **kw):
    CALLS['resource'] += 1
    return _Resource()
