"""Attach the /verif monitors in ANY process when BBC_MOSROMGR_VERIF=1
(the repository's own pytest run, the console script).  With the guard unset
this file does nothing at all.  It is found because the checks put
/verif/mon/auto on PYTHONPATH; nothing in /repo refers to it."""
import os
import sys

if os.environ.get('BBC_MOSROMGR_VERIF') == '1':
    _verif = os.path.dirname(os.path.dirname(os.path.dirname(os.path.abspath(__file__))))
    for _p in (_verif, os.path.join(_verif, '.deps')):
        if _p not in sys.path:
            sys.path.append(_p)

    import importlib.abc
    import importlib.util

    _STAGES = {'mosromgr.mostypes': 'install_types', 'mosromgr.moscollection': 'install_collection'}

    class _PostImport(importlib.abc.MetaPathFinder):
        def find_spec(self, name, path, target=None):
            if name not in _STAGES:
                return None
            for f in sys.meta_path:
                if f is self:
                    continue
                try:
                    spec = f.find_spec(name, path, target)
                except (AttributeError, ImportError):
                    spec = None
                if spec is not None and spec.loader is not None and hasattr(spec.loader, 'exec_module'):
                    orig_exec = spec.loader.exec_module

                    def exec_module(module, _orig=orig_exec, _name=name):
                        _orig(module)
                        try:
                            from mon import attach
                            getattr(attach, _STAGES[_name])()
                        except Exception as e:       # never break the host process
                            sys.stderr.write('verif: monitor attachment failed: %r\n' % (e,))
                    try:
                        spec.loader.exec_module = exec_module
                    except AttributeError:
                        pass
                    return spec
            return None

    sys.meta_path.insert(0, _PostImport())

    _out = os.environ.get('VERIF_EVENT_OUT')
    if _out:
        import atexit

        def _dump():
            try:
                import json
                from mon import events as EV
                path = '%s.%d.json' % (_out, os.getpid())
                with open(path, 'w') as f:
                    json.dump({'events': [e for e in EV.LOG if e.get('ev') in ('ADD', 'COLL_MERGE')],
                               'acc_fail': EV.ACC_FAIL, 'counts': dict(EV.COUNTS)}, f, default=str)
            except Exception as e:
                sys.stderr.write('verif: event dump failed: %r\n' % (e,))
        atexit.register(_dump)
