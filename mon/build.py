"""Builders for running-order and message documents (text).

Workloads describe documents abstractly and get text back; the oracle never
sees the description, only the text.  No mosromgr import.
"""
from xml.etree import ElementTree as ET

BLANK = ('blank',)     # tag present, no text
ABSENT = ('absent',)   # tag omitted


def E(tag, text=None, *children, attrib=None, tail=None):
    e = ET.Element(tag, dict(attrib or {}))
    if text is not None:
        e.text = text
    for c in children:
        e.append(c)
    if tail is not None:
        e.tail = tail
    return e


def clone(e):
    import copy
    return copy.deepcopy(e)


def _ref(parent, tag, ref):
    """Append an ID tag for a reference: str id, BLANK or ABSENT."""
    if ref is ABSENT or ref == ABSENT:
        return
    if ref is BLANK or ref == BLANK:
        parent.append(E(tag))
    else:
        parent.append(E(tag, ref))


def timing(duration=None, text_time=None, media_time=None, started=None, ended=None,
           payload=True, extra=()):
    """A mosExternalMetadata timing block. payload=False -> block without mosPayload."""
    mem = E('mosExternalMetadata')
    mem.append(E('mosScope', 'PLAYLIST'))
    mem.append(E('mosSchema', 'http://example/timing'))
    if payload:
        p = E('mosPayload')
        for tag, v in (('StoryStarted', started), ('StoryEnded', ended),
                       ('StoryDuration', duration), ('TextTime', text_time),
                       ('MediaTime', media_time)):
            if v is not None:
                p.append(E(tag, v if isinstance(v, str) else repr(v)))
        for x in extra:
            p.append(x)
        mem.append(p)
    return mem


def item(item_id, slug=None, extra=(), tag='item'):
    it = E(tag)
    _ref(it, 'itemID', item_id)
    if slug is not None:
        it.append(E('itemSlug', slug))
    for x in extra:
        it.append(x)
    return it


def story(story_id, slug=None, children=(), timing_el=None, extra=(), attrib=None):
    """children: sequence of Elements (item / p / anything) in document order."""
    st = E('story', attrib=attrib)
    _ref(st, 'storyID', story_id)
    if slug is not None:
        st.append(E('storySlug', slug))
    for x in extra:
        st.append(x)
    if timing_el is not None:
        st.append(timing_el)
    for c in children:
        st.append(c)
    return st


def to_text(root, pretty=False):
    if pretty:
        root = clone(root)
        _indent_keep_text(root)
    # U+E00D is the generators' placeholder for a carriage return that must
    # reach the parser as a character reference (a raw CR would be normalised
    # to LF by the XML parser before the library ever sees it)
    return ET.tostring(root, encoding='unicode').replace('\ue00d', '&#13;')


def _indent_keep_text(elem, level=0):
    """Pretty-print without touching the text of leaves or mixed content."""
    i = "\n" + level * "  "
    kids = list(elem)
    if kids:
        mixed = (elem.text and elem.text.strip()) or any(k.tail and k.tail.strip() for k in kids)
        if mixed:
            return
        elem.text = i + "  "
        for k in kids:
            _indent_keep_text(k, level + 1)
            k.tail = i + "  "
        kids[-1].tail = i


def envelope(message_id, body, mos_id='MOS ID', ncs_id=None, extra=(), root_attrib=None,
             body_first=False, after=()):
    root = E('mos', attrib=root_attrib)
    parts = [E('mosID', mos_id)] if mos_id is not None else []      # mos_id=None: envelope without <mosID>
    if ncs_id is not None:
        parts.append(E('ncsID', ncs_id))
    parts.append(E('messageID', str(message_id)))
    parts.extend(extra)
    if body_first:
        root.append(body)
        for p in parts:
            root.append(p)
    else:
        for p in parts:
            root.append(p)
        root.append(body)
    for p in after:                       # envelope children that follow the message element
        root.append(p)
    return root


def ro_doc(ro_id='RO', message_id=1, entries=(), slug='RO SLUG', ed_start=None,
           meta_first=(), pretty=False, tag='roCreate', bare=False, **env):
    """entries: Elements in order (stories and metadata, any interleaving).
    meta_first: metadata Elements placed right after roID/roSlug.
    bare: a running-order element holding nothing but the entries (no roID, slug or start)."""
    rc = E(tag)
    if not bare:
        rc.append(E('roID', ro_id))
        if slug is not None:
            rc.append(E('roSlug', slug))
        if ed_start is not None:
            rc.append(E('roEdStart', ed_start if ed_start != '' else None))
    for m in meta_first:
        rc.append(m)
    for e in entries:
        rc.append(e)
    return to_text(envelope(message_id, rc, **env), pretty)


EA_KINDS = {
    'EAStoryInsert': ('INSERT', 'story'), 'EAStoryReplace': ('REPLACE', 'story'),
    'EAStoryMove': ('MOVE', 'story'), 'EAStoryDelete': ('DELETE', 'story'),
    'EAStorySwap': ('SWAP', 'story'),
    'EAItemInsert': ('INSERT', 'item'), 'EAItemReplace': ('REPLACE', 'item'),
    'EAItemMove': ('MOVE', 'item'), 'EAItemDelete': ('DELETE', 'item'),
    'EAItemSwap': ('SWAP', 'item'),
}

STORY_KINDS = ('roStoryAppend', 'roStoryInsert', 'roStoryReplace', 'roStoryMove',
               'roStoryDelete', 'roStorySend', 'EAStoryInsert', 'EAStoryReplace',
               'EAStoryMove', 'EAStoryDelete', 'EAStorySwap')
ITEM_KINDS = ('roItemInsert', 'roItemReplace', 'roItemMoveMultiple', 'roItemDelete',
              'EAItemInsert', 'EAItemReplace', 'EAItemMove', 'EAItemDelete', 'EAItemSwap')
OTHER_KINDS = ('roReplace', 'roMetadataReplace', 'roReadyToAir', 'roDelete')
ALL_KINDS = STORY_KINDS + ITEM_KINDS + OTHER_KINDS


def msg_doc(kind, message_id, ro_id='RO', *, story_ref=ABSENT, target=ABSENT, ids=(),
            carried=(), pretty=False, target_el=True, body=None, fields=(),
            operation=None, split_sources=False, source_story=None, **env):
    """Build a message document.

    story_ref : addressed story (item-level kinds)
    target    : target story (story-level) or target item (item-level)
    ids       : list of source IDs (refs)
    carried   : list of carried Elements (stories / items / metadata)
    target_el : for roElementAction, whether <element_target> is emitted at all
    body/fields : roStorySend: children of storyBody / other children
    split_sources: one <element_source> per ID (non-standard shape)
    source_story : item-level roElementAction only: a <storyID> inside element_source, before the
                   item IDs (classified as an item operation all the same; items are those of the target story)
    """
    if kind in EA_KINDS:
        op, level = EA_KINDS[kind]
        m = E('roElementAction', attrib={'operation': operation or op})
        m.append(E('roID', ro_id))
        if target_el:
            t = E('element_target')
            if level == 'story':
                _ref(t, 'storyID', target)
            else:
                _ref(t, 'storyID', story_ref)
                _ref(t, 'itemID', target)
            m.append(t)
        idtag = 'storyID' if level == 'story' else 'itemID'
        if split_sources and ids:
            for r in ids:
                s = E('element_source')
                _ref(s, idtag, r)
                m.append(s)
        else:
            s = E('element_source')
            if source_story is not None and level == 'item' and ids:
                s.append(E('storyID', source_story))
            for r in ids:
                _ref(s, idtag, r)
            for c in carried:
                s.append(c)
            m.append(s)
    elif kind == 'roStorySend':
        m = E('roStorySend')
        placed = False
        if fields and fields[0] == 'BODY0':
            # storyBody as the very first child of roStorySend
            b = E('storyBody')
            for c in (body or ()):
                b.append(c)
            m.append(b)
            placed = True
            fields = fields[1:]
        m.append(E('roID', ro_id))
        _ref(m, 'storyID', story_ref)
        for f in fields:
            if f == 'NOBODY':
                continue
            if f == 'BODY':
                b = E('storyBody')
                for c in (body or ()):
                    b.append(c)
                m.append(b)
                placed = True
            else:
                m.append(f)
        if not placed and 'NOBODY' not in (fields or ()):
            b = E('storyBody')
            for c in (body or ()):
                b.append(c)
            m.append(b)
    else:
        m = E(kind)
        m.append(E('roID', ro_id))
        if kind in ('roStoryAppend', 'roReplace', 'roMetadataReplace'):
            pass
        elif kind in ('roStoryInsert', 'roStoryReplace'):
            _ref(m, 'storyID', target)
        elif kind == 'roStoryMove':
            for r in ids:
                _ref(m, 'storyID', r)
            _ref(m, 'storyID', target)
        elif kind == 'roStoryDelete':
            for r in ids:
                _ref(m, 'storyID', r)
        elif kind in ('roItemInsert', 'roItemReplace'):
            _ref(m, 'storyID', story_ref)
            _ref(m, 'itemID', target)
        elif kind == 'roItemMoveMultiple':
            _ref(m, 'storyID', story_ref)
            for r in ids:
                _ref(m, 'itemID', r)
            _ref(m, 'itemID', target)
        elif kind == 'roItemDelete':
            _ref(m, 'storyID', story_ref)
            for r in ids:
                _ref(m, 'itemID', r)
        elif kind == 'roReadyToAir':
            m.append(E('roAir', 'READY'))
        elif kind == 'roDelete':
            pass
        else:
            raise ValueError(kind)
        for c in carried:
            m.append(c)
    return to_text(envelope(message_id, m, **env), pretty)
