"""Append-only event log and counters of one (single-threaded) process."""
from collections import Counter

LOG = []            # ADD / CLASSIFY / COLL / CLI / S3 events (dicts)
COUNTS = Counter()  # cheap counters (primitive calls, accessor evaluations, ...)
ACC_FAIL = []       # accessor mismatches / exceptions (kept in full)
WARN_STACK = []     # stack of lists: warnings emitted inside open ADD calls
ALL_WARNS = []      # every warning emission seen by the proxy (category name, message)
STATE = {'seq': 0, 'depth': 0, 'enabled': True}


def next_seq():
    STATE['seq'] += 1
    return STATE['seq']


def drain():
    out = LOG[:]
    del LOG[:]
    return out


def drain_acc():
    out = ACC_FAIL[:]
    del ACC_FAIL[:]
    return out


def reset():
    del LOG[:]
    del ACC_FAIL[:]
    del ALL_WARNS[:]
    COUNTS.clear()
