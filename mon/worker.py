"""Worker entry point: one subprocess = one share of one property's workload.

usage: python -B -m mon.worker <prop> <tier> <seed> <wi> <nw> <outfile> [replay-file]
"""
import importlib
import json
import os
import sys
import traceback


def main(argv):
    prop, tier, seed, wi, nw, out = argv[:6]
    replay = argv[6] if len(argv) > 6 else None
    seed, wi, nw = int(seed), int(wi), int(nw)
    from . import cov
    from .attach import repo_root
    cov_on = cov.start(repo_root()) if os.environ.get('VERIF_COV', '1') == '1' else False
    from .harness import Session
    res = None
    s = None
    try:
        mod = importlib.import_module('mon.props.' + prop.lower())
        s = Session(prop, tier, seed, wi, nw)
        if replay:
            data = json.load(open(replay))
            if data.get('witness', {}).get('type') == 'load':
                # witness of the load-fidelity monitor (harness.Session.load): loading it again re-judges it
                try:
                    s.load(data['witness']['doc'], via=data['witness'].get('via'))
                except Exception:
                    pass            # a refused load has been judged inside load()
                s.evaluations += 1
            elif data.get('witness', {}).get('type') == 'hostile-caller':
                # witness of K.hostile_callers: the workload is small and deterministic - all of it is judged again
                from .props import common as K_
                K_.hostile_callers(s)
            elif data.get('witness', {}).get('type') == 'in-place':
                # witness of the in-place monitor (harness.Session.add): the same message into the same content again
                w_ = data['witness']
                try:
                    s.add(s.load(w_['ro_txt'], via='str'), s.load(w_['msg_txt'], via='str'))
                except Exception:
                    pass
                s.evaluations += 1
            else:
                mod.replay(s, data)
        else:
            try:
                mod.run(s)
            except BaseException as e:
                if type(e).__name__ != 'EarlyStop':
                    raise
        res = s.result()
        if cov_on:
            res['cov'] = cov.report(repo_root())
            res['cov_lines'] = sorted('%s:%d' % k for k in cov.HIT)
    except BaseException as e:      # the harness itself failed: inconclusive, never a verdict
        err = traceback.format_exc()[-3000:]
        try:
            # what the monitors judged before the harness failed stays an observation
            res = s.result() if s is not None else {}
        except BaseException:
            res = {}
        res.update({'prop': prop, 'worker': wi, 'harness_error': err})
    with open(out, 'w') as f:
        json.dump(res, f, default=repr)        # whatever an accessor handed back ends up in a detail as its repr
    return 0


if __name__ == '__main__':
    sys.exit(main(sys.argv[1:]))
