"""Worker-side session: drives the real library under the monitors, judges the
recorded events with the oracles and accumulates what was observed."""
import json
import logging
import os
import sys
import time
import warnings
from collections import Counter

from . import events as EV
from . import spec
from .canon import Abs
from .gen import rng_for


class EarlyStop(BaseException):
    """Raised by Session.violation in VERIF_STOP_ON_FIRST=1 mode only."""


class Session:
    def __init__(self, prop, tier='quick', seed=0, wi=0, nw=1):
        self.prop = prop
        self.tier = tier
        self.seed = seed
        self.wi = wi
        self.nw = nw
        self.t0 = time.time()
        self.evaluations = 0
        self.sigs = set()              # distinct non-trivial case signatures
        self.all_sigs = 0
        self.violations = {}           # signature -> {count, first witness}
        self.other = Counter()         # deviations of other properties seen in passing
        self.hist = Counter()          # outcome histogram etc.
        self.samples = []
        self.ooc = Counter()
        self.notes = []
        self.inconclusive = []
        self.case_no = 0
        self._attach()

    # -- setup
    def _attach(self):
        from . import attach
        self.info = attach.install()
        # logging configuration is an input too: even workers silence the library
        # completely, odd workers enable DEBUG (into a null handler)
        self.logmode = os.environ.get('VERIF_LOGMODE') or ('debug' if self.wi % 2 else 'disabled')
        logging.getLogger().handlers[:] = [logging.NullHandler()]
        if self.logmode == 'debug':
            logging.disable(logging.NOTSET)
            logging.getLogger().setLevel(logging.DEBUG)
            logging.getLogger('mosromgr').setLevel(logging.DEBUG)
        else:
            logging.disable(logging.CRITICAL)
        self.hist['logging:' + self.logmode] += 1
        import locale
        self.hostenv = os.environ.get('VERIF_HOSTENV_NAME', 'plain')
        self.hist['host-environment:%s (text encoding %s, file names %s, TZ %s)' % (
            self.hostenv, locale.getpreferredencoding(False), sys.getfilesystemencoding(), os.environ.get('TZ', 'unset'))] += 1
        import mosromgr.mostypes as mt
        import mosromgr.exc as exc
        self.mt = mt
        self.exc = exc
        if not self.info.get('from_expected_tree'):
            self.inconclusive.append('mosromgr imported from %s, not from %s'
                                     % (self.info['file'], attach.repo_root()))
        if self.info.get('missing'):
            self.inconclusive.append('attachment targets missing: %s' % self.info['missing'])

    def mine(self, index):
        """Static work split: is case `index` this worker's?"""
        return index % self.nw == self.wi

    def rng(self, *parts):
        return rng_for(self.seed, self.prop, *parts)

    # -- library access (quiet = not recorded as classification events)
    # properties for which "the object holds something other than the document it was read from" is a violation
    LOAD_FIDELITY = {'C04': 'carried content', 'C14': 'serialisation', 'C17': 'story text', 'C18': 'source',
                     'C20': 'exposed IDs and content'}

    @staticmethod
    def _parses(text):
        from xml.etree import ElementTree as ET
        try:
            ET.fromstring(text)
            return True
        except Exception:
            return False

    def _from_source(self, text, via):
        """The same document through another source: UTF-8 bytes, or a file holding those bytes."""
        data = text.encode('utf-8')
        if via == 'bytes':
            return self.mt.MosFile.from_string(data)
        if getattr(self, '_srcfile', None) is None:
            import tempfile
            fd, self._srcfile = tempfile.mkstemp(prefix='verif-load-', suffix='.mos.xml')
            os.close(fd)
        with open(self._srcfile, 'wb') as f:
            f.write(data)
        return self.mt.MosFile.from_file(self._srcfile)

    def load(self, text, via=None):
        """MosFile for a document text.  The SOURCE is a dimension of every workload: one load in eight goes
        through a file, one in eight through bytes (documents without an XML declaration, as UTF-8)."""
        self._loads = getattr(self, '_loads', 0) + 1
        if via is None:
            via = 'str'
            if isinstance(text, str) and '<?xml' not in text[:200] and self._loads % 4 == 0:
                via = 'file' if self._loads % 8 == 0 else 'bytes'
        wit = {'type': 'load', 'doc': text if isinstance(text, str) else text.decode('latin-1'), 'via': via}
        concerns = self.LOAD_FIDELITY.get(self.prop, 'every property is about the document that was given')
        EV.STATE['quiet'] = EV.STATE.get('quiet', 0) + 1
        try:
            mo = None
            if via != 'str':
                self.hist['loads_via_' + via] += 1
                try:
                    mo = self._from_source(text, via)
                except Exception as e:
                    try:
                        mo = self.mt.MosFile.from_string(text)
                    except Exception:
                        raise e from None         # refused from every source alike: not a matter of the source
                    # the same document loads from a str: the source decided
                    self.custom_violation('document-loads-from-a-string-but-not-from-%s' % via,
                                          {'exc': [c.__name__ for c in type(e).__mro__][:2], 'msg': str(e)[:160],
                                           'concerns': concerns, 'host': getattr(self, 'hostenv', 'plain')},
                                          wit, msg_kind='load', status='load')
                    via = 'str'
            if mo is None:
                mo = self.mt.MosFile.from_string(text)
        except Exception as e:
            if self.prop in self.LOAD_FIDELITY and type(e).__name__ == 'MosInvalidXML' and self._parses(text):
                # the library calls a document invalid XML that the XML parser reads: nothing it carries can arrive
                self.custom_violation('well-formed-document-refused-as-invalid-xml',
                                      {'concerns': concerns, 'msg': str(e)[:200]}, wit, msg_kind='load', status='load')
            raise
        finally:
            EV.STATE['quiet'] -= 1
        if self.prop in self.LOAD_FIDELITY or via != 'str':
            # the tree the library holds == an independent parse of the same text (same parser, so any
            # difference was made by the library: dropped characters, re-decoded text, rewritten nodes)
            try:
                from xml.etree import ElementTree as ET
                from .canon import canon
                same = canon(ET.fromstring(text)) == canon(mo.xml)
            except Exception:
                same = True          # not comparable (should not happen for a document that just loaded)
            self.hist['load_fidelity_checks'] += 1
            if not same:
                self.custom_violation('document-altered-by-loading',
                                      {'class': type(mo).__name__, 'concerns': concerns, 'via': via,
                                       'host': getattr(self, 'hostenv', 'plain')},
                                      wit, msg_kind=type(mo).__name__, status='load')
        return mo

    def add(self, ro, msg, error_on=None):
        """ro + msg on the real library.  Returns (ro', exception|None, warnings).
        error_on: a warning category turned into an error for this call (the
        interpreter's -W error configuration, restricted to that category)."""
        with warnings.catch_warnings(record=True) as wl:
            warnings.simplefilter('always')
            if sys.flags.bytes_warning >= 2:
                warnings.simplefilter('error', BytesWarning)      # python -bb stays python -bb inside the monitored call
            if error_on is not None:
                warnings.simplefilter('error', error_on)
            try:
                out = ro + msg
                err = None
            except Exception as e:      # noqa: we observe everything
                out = ro
                err = e
        if err is None:
            self._merged_in_place(ro, out, msg)
        return out, err, wl

    @staticmethod
    def _safe_str(x):
        try:
            return str(x)
        except Exception:
            return None

    def _merged_in_place(self, ro, out, msg):
        """A message is merged INTO the running order it is given (ro + msg, msg.merge(ro) and ro += msg are one
        operation; collections, the CLI and callers who keep the object rely on it): when the call hands back
        another object, the one that was given must hold the same content."""
        if out is ro or out is None:
            return
        try:
            same = str(out) == str(ro)
        except Exception:
            same = False
        self.hist['merge_results_that_are_another_object'] += 1
        if not same:
            self.custom_violation('merge-did-not-change-the-running-order-it-was-given',
                                  {'message': type(msg).__name__, 'returned': type(out).__name__},
                                  {'type': 'in-place', 'ro_txt': self._safe_str(ro), 'msg_txt': self._safe_str(msg)},
                                  msg_kind=type(msg).__name__,
                                  status='in-place')

    # -- judging
    def judge_event(self, ev, delivered=None, ctx=None):
        """Judge one ADD event with the transition relation + state facts."""
        if ev.get('post_xml') is None:
            # the tree the add left behind cannot be written out at all (str(ro) would fail the same way)
            self.hist['unserialisable-post'] += 1
            self.evaluations += 1
            d = spec.Dev('C14', 'state-cannot-be-serialised', {'msg_cls': ev.get('msg_cls'), 'outcome': ev.get('outcome')})
            if self.prop == 'C14':
                class _V:
                    msg_kind = ev.get('msg_cls')
                    status = 'unserialisable'
                    sig = None
                self.violation(d, None, _V(), ctx, {'type': 'transition', 'pre_xml': ev.get('pre_xml'),
                                                      'msg_xml': ev.get('msg_xml'), 'context': ctx})
            else:
                self.other['C14:state-cannot-be-serialised'] += 1
            return None
        v = spec.judge(ev['pre_xml'], ev['msg_xml'], ev['post_xml'], ev['outcome'],
                       ev.get('warns', ()), tuple(ev.get('exc_mro', ())))
        devs = list(v.devs)
        # C13(a): the message text is not modified by the merge
        if ev.get('msg_after') is not None and ev['msg_after'] != ev['msg_xml']:
            devs.append(spec.Dev('C13', 'message-modified-by-merge', {'kind': v.msg_kind}))
        # emission count (proxy) vs delivered count (always filter)
        if delivered is not None:
            mos = Counter(w for w in ev.get('warns', ()) if w in spec.MOS_WARNINGS)
            dl = Counter(w for w in delivered if w in spec.MOS_WARNINGS)
            if mos != dl:
                devs.append(spec.Dev('C06', 'emitted-vs-delivered-warnings-differ',
                                     {'emitted': dict(mos), 'delivered': dict(dl)}))
        devs.extend(self.state_devs(ev, v))
        self.evaluations += 1
        self.hist['kind:%s' % v.msg_kind] += 1
        oc = 'raise:' + (ev.get('exc_mro') or ['?'])[0] if ev['outcome'] == 'raise' else \
             ('warn' if any(w in spec.MOS_WARNINGS for w in ev.get('warns', ())) else 'ok')
        self.hist['outcome:' + oc] += 1
        for w in ev.get('warns', ()):
            self.hist['warning:' + w] += 1
        if not v.in_claim:
            self.ooc[str(v.status)] += 1
        if v.sig is not None:
            self.all_sigs += 1
            if v.nontrivial:
                self.sigs.add(repr(v.sig))
        for d in devs:
            if d.prop == self.prop:
                self.violation(d, ev, v, ctx)
            else:
                self.other['%s:%s' % (d.prop, d.kind)] += 1
        if len(self.samples) < 4 and v.nontrivial and v.in_claim and self.evaluations % 7 == 1:
            self.samples.append({'message_kind': v.msg_kind, 'signature': repr(v.sig),
                                 'outcome': oc, 'pre_story_ids': Abs(ev['pre_xml']).story_ids,
                                 'msg_xml': ev['msg_xml'][:600],
                                 'post_story_ids': Abs(ev['post_xml']).story_ids})
        return v

    def state_devs(self, ev, v):
        """C14 / C07 facts recorded by the monitor at the post state."""
        out = []
        rt = ev.get('rt')
        if not rt:
            return out
        self.hist['state_checks'] += 1
        if 'str_exc' in rt:
            out.append(spec.Dev('C14', 'str-raised', {'exc': rt['str_exc']}))
            return out
        if 'str_parse_error' in rt:
            out.append(spec.Dev('C14', 'str-not-wellformed', {'error': rt['str_parse_error']}))
        elif not rt.get('faithful', True):
            out.append(spec.Dev('C14', 'str-differs-from-tree', {'has_cr': '\r' in rt['str']}))
        if 'rt_exc' in rt:
            out.append(spec.Dev('C14', 'reread-failed', {'exc': rt['rt_exc']}))
            return out
        if rt.get('rt_cls') != 'RunningOrder':
            out.append(spec.Dev('C14', 'reread-not-a-RunningOrder', {'cls': rt.get('rt_cls')}))
            out.append(spec.Dev('C07', 'reread-not-a-RunningOrder', {'cls': rt.get('rt_cls')}))
        if rt.get('rt_str') != rt['str']:
            cr = '\r' in rt['str']
            out.append(spec.Dev('C14', 'roundtrip-differs',
                                {'has_cr': cr,
                                 'only_cr_normalised': cr and rt.get('rt_str') ==
                                 rt['str'].replace('\r\n', '\n').replace('\r', '\n')}))
        if 'ids_exc' not in rt and 'live_ids' in rt:
            try:
                doc = Abs(ev['post_xml'])
                from .canon import item_ids as _iids
                doc_ids = [(i, _iids(st)) for i, st in zip(doc.story_ids, doc.stories)]
                live = [(a, list(b)) for a, b in rt['live_ids']]
                if live != doc_ids:
                    out.append(spec.Dev('C14', 'live-stories-differ-from-serialised-document',
                                        {'live': live[:6], 'document': doc_ids[:6]}))
                if 'rt_ids' in rt and [(a, list(b)) for a, b in rt['rt_ids']] != live:
                    out.append(spec.Dev('C14', 'reread-stories-differ-from-live-object',
                                        {'live': live[:6], 'reread': rt['rt_ids'][:6]}))
            except Exception:
                pass
        if 'completed' in rt and 'rt_completed' in rt and rt['completed'] != rt['rt_completed']:
            out.append(spec.Dev('C07', 'completed-flag-lost-on-roundtrip', {}))
            out.append(spec.Dev('C14', 'completed-flag-lost-on-roundtrip', {}))
        try:
            doc_completed = Abs(ev['post_xml']).completed
            if 'completed' in rt and rt['completed'] != doc_completed:
                out.append(spec.Dev('C07', 'completed-accessor-disagrees-with-document',
                                    {'accessor': rt['completed'], 'document': doc_completed}))
        except Exception:
            pass
        return out

    def violation(self, dev, ev=None, v=None, ctx=None, witness=None):
        sig = {'dev': dev.kind, 'msg_kind': getattr(v, 'msg_kind', None),
               'status': getattr(v, 'status', None)}
        key = json.dumps(sig, sort_keys=True)
        slot = self.violations.get(key)
        if slot is None:
            w = witness or {}
            if ev is not None:
                w = {'type': 'transition', 'pre_xml': ev['pre_xml'], 'msg_xml': ev['msg_xml'],
                     'observed': {'outcome': ev['outcome'], 'exc': ev.get('exc_mro', [])[:2],
                                  'exc_msg': ev.get('exc_msg'), 'warns': ev.get('warns'),
                                  'post_xml': ev['post_xml']},
                     'primitive_trace': ev.get('prims'), 'case_sig': repr(getattr(v, 'sig', None))}
            if ctx:
                w['context'] = ctx
            slot = self.violations[key] = {'property': dev.prop, 'signature': sig, 'count': 0,
                                           'detail': dev.detail, 'witness': w}
        slot['count'] += 1
        if os.environ.get('VERIF_STOP_ON_FIRST') == '1':
            # mutation-analysis mode (tools/mutation_sweep.py): one violation decides, stop this worker
            raise EarlyStop()

    def custom_violation(self, kind, detail, witness, msg_kind=None, status=None):
        d = spec.Dev(self.prop, kind, detail)

        class _V:
            pass
        vv = _V()
        vv.msg_kind = msg_kind
        vv.status = status
        vv.sig = None
        self.violation(d, None, vv, None, witness)

    def drain_and_judge(self, delivered=None, ctx=None):
        out = []
        for ev in EV.drain():
            if ev.get('ev') == 'ADD':
                out.append((ev, self.judge_event(ev, delivered, ctx)))
        return out

    def step(self, ro, msg_text, ctx=None, error_on=None):
        """Parse msg_text, add it to ro, judge.  Returns (ro, err, verdict, event)."""
        try:
            msg = self.load(msg_text)
        except Exception as e:
            self.hist['unloadable-message:' + type(e).__name__] += 1
            return ro, e, None, None
        ro2, err, wl = self.add(ro, msg, error_on)
        delivered = [type(w.message).__name__ for w in wl]
        judged = self.drain_and_judge(delivered, ctx)
        ev, v = judged[-1] if judged else (None, None)
        return ro2, err, v, ev

    def step_direct(self, ro, msg_text, ctx=None):
        """Like step(), but through msg.merge(ro) called directly (public API)."""
        from . import attach
        try:
            msg = self.load(msg_text)
        except Exception as e:
            self.hist['unloadable-message:' + type(e).__name__] += 1
            return ro, e, None, None
        with warnings.catch_warnings(record=True) as wl:
            warnings.simplefilter('always')
            if sys.flags.bytes_warning >= 2:
                warnings.simplefilter('error', BytesWarning)
            ro2, err = attach.direct_merge(ro, msg)
        if err is None:
            self._merged_in_place(ro, ro2, msg)
        delivered = [type(w.message).__name__ for w in wl]
        judged = self.drain_and_judge(delivered, ctx)
        self.hist['direct_merges'] += 1
        ev, v = judged[-1] if judged else (None, None)
        return ro2, err, v, ev

    def note_sig(self, sig, nontrivial=True):
        self.all_sigs += 1
        if nontrivial:
            self.sigs.add(repr(sig))

    def sample(self, s, cap=4):
        if len(self.samples) < cap:
            self.samples.append(s)

    # -- result
    def result(self):
        if getattr(self, '_srcfile', None):
            try:
                os.unlink(self._srcfile)
            except OSError:
                pass
            self._srcfile = None
        acc = {k: c for k, c in EV.COUNTS.items()}
        return {
            'prop': self.prop, 'tier': self.tier, 'seed': self.seed, 'worker': self.wi,
            'evaluations': self.evaluations, 'sigs': sorted(self.sigs), 'all_sigs': self.all_sigs,
            'violations': list(self.violations.values()), 'other': dict(self.other),
            'hist': dict(self.hist), 'samples': self.samples, 'ooc': dict(self.ooc),
            'counts': acc, 'acc_fail': EV.ACC_FAIL[:50], 'inconclusive': self.inconclusive,
            'notes': self.notes, 'wall_s': time.time() - self.t0,
            'attach': {k: v for k, v in self.info.items() if k != 'contracts'},
            'contracts': self.info.get('contracts', {}).get('mechanism'),
            'python': sys.version.split()[0], 'debug': __debug__,
        }
