"""Known findings: genuine defects of bbc/mosromgr that are recorded rather
than repaired.  Entries live in /verif/known_findings.json (committed, never
written at run time) and are keyed by MECHANISM: a classifier returns true
only if the witness lies in the entry's input class AND shows exactly the
deviation that mechanism predicts.  'fixed' entries suppress nothing."""
import json
import os

HERE = os.path.dirname(os.path.dirname(os.path.abspath(__file__)))


def load():
    p = os.path.join(HERE, 'known_findings.json')
    try:
        data = json.load(open(p))
    except (OSError, ValueError):
        return {}
    return {f['id']: f for f in data.get('findings', [])}


# ---- classifiers ---------------------------------------------------------

def cr_normalised_on_reread(v):
    """C14 / D18: a text or attribute value contains U+000D; ElementTree writes
    it raw and the XML parser normalises it to LF on re-read.  Matches only
    when the re-read text equals the original with CR(LF) -> LF and nothing
    else differs."""
    if v['signature'].get('dev') != 'roundtrip-differs':
        return False
    d = v.get('detail') or {}
    return bool(d.get('has_cr')) and bool(d.get('only_cr_normalised'))


CLASSIFIERS = {
    'cr_normalised_on_reread': cr_normalised_on_reread,
}


def match(v, findings):
    for fid, f in findings.items():
        if f.get('status') != 'open':
            continue
        if f.get('property') != v.get('property'):
            continue
        fn = CLASSIFIERS.get(f.get('classifier'))
        if fn is None:
            continue
        try:
            if fn(v):
                return fid
        except Exception:
            continue
    return None
