"""Install the runtime monitors on the imported mosromgr modules.

Nothing in /repo is edited: attributes of the imported modules and classes are
re-bound (DESIGN 2.1).  Monitors never raise into the code under observation
and never change return values or warnings; they record into mon.events.
"""
import os
import sys
import types
from xml.etree import ElementTree as ET

from . import events as EV

_INSTALLED = {'done': False}
ORIG = {}


def _ser(el):
    # the monitor's own serialisation of the live tree.  A carriage return is
    # written as a character reference so that judging / replaying from this
    # text sees the same tree the library held (a raw CR would come back as LF)
    return ET.tostring(el, encoding='unicode').replace('\r', '&#13;')


def _strict_eq(a, b):
    if a.tag != b.tag or a.attrib != b.attrib or (a.text or '') != (b.text or '') \
            or (a.tail or '') != (b.tail or '') or len(a) != len(b):
        return False
    return all(_strict_eq(x, y) for x, y in zip(a, b))


class WarnProxy(types.ModuleType):
    """Stands in for the `warnings` module inside mosromgr.mostypes /
    mosromgr.moscollection: records every emission (independent of filters)
    and forwards it unchanged."""

    def __init__(self, real, where):
        super().__init__('warnings')
        self.__dict__['_real'] = real
        self.__dict__['_where'] = where

    def __getattr__(self, name):
        return getattr(self.__dict__['_real'], name)

    def warn(self, message, category=None, stacklevel=1, **kw):
        cat = category
        if isinstance(message, Warning):
            cat = type(message)
        if cat is None:
            cat = UserWarning
        name = getattr(cat, '__name__', str(cat))
        try:
            if name in ('StoryNotFoundWarning', 'ItemNotFoundWarning', 'DuplicateStoryWarning',
                        'MosMergeNonStrictWarning') and 'MosRoMgrWarning' not in [c.__name__ for c in cat.__mro__]:
                EV.COUNTS['warn-outside-hierarchy:' + name] += 1
                if EV.WARN_STACK:
                    EV.WARN_STACK[-1].append('!outside-hierarchy:' + name)
        except Exception:
            pass
        rec = (name, str(message), self.__dict__['_where'])
        EV.ALL_WARNS.append(rec)
        EV.COUNTS['warn:' + name] += 1
        if EV.WARN_STACK:
            EV.WARN_STACK[-1].append(name)
        return self.__dict__['_real'].warn(message, category, stacklevel + 1, **kw)


def _mro_names(exc):
    return [c.__name__ for c in type(exc).__mro__]


def _wrap_primitive(name, fn):
    def wrapper(*a, **kw):
        EV.COUNTS['prim:' + name] += 1
        if EV.STATE.get('prims') is not None:
            try:
                parent = kw.get('parent', a[0] if a else None)
                node = kw.get('node', kw.get('child_tag', None))
                EV.STATE['prims'].append(
                    (name, getattr(parent, 'tag', None),
                     kw.get('index'), getattr(node, 'tag', node), kw.get('id')))
            except Exception:
                pass
        return fn(*a, **kw)
    wrapper.__name__ = name
    wrapper.__wrapped__ = fn
    return wrapper


def _alias_scan(msg_xml_el, ro_xml_el):
    try:
        mine = {id(e): e for e in msg_xml_el.iter()}
        shared = [e.tag for e in ro_xml_el.iter() if id(e) in mine]
        return shared
    except Exception:
        return None


def _roundtrip(ro, mt):
    """C14 state facts: str(ro), re-read class, re-read text, completed flags."""
    out = {}
    EV.STATE['quiet'] = EV.STATE.get('quiet', 0) + 1
    try:
        s = str(ro)
        out['str'] = s
        try:
            out['faithful'] = _strict_eq(ET.fromstring(s), ro.xml)
        except ET.ParseError as e:
            out['faithful'] = False
            out['str_parse_error'] = str(e)[:200]
        try:
            rr = ORIG['from_string'](mt.MosFile, s)
            out['rt_cls'] = type(rr).__name__
            out['rt_str'] = str(rr)
            out['rt_completed'] = bool(rr.completed)
        except BaseException as e:     # noqa
            out['rt_exc'] = _mro_names(e)[:2] + [str(e)[:200]]
        try:
            live = [(st.id, [it.id for it in (st.items or [])]) for st in ro.stories]
            out['live_ids'] = live
            if 'rt_cls' in out:
                out['rt_ids'] = [(st.id, [it.id for it in (st.items or [])]) for st in rr.stories]
        except BaseException as e:     # noqa
            out['ids_exc'] = _mro_names(e)[:2]
        try:
            out['completed'] = bool(ro.completed)
        except BaseException as e:     # noqa
            out['completed_exc'] = _mro_names(e)[:2]
    except BaseException as e:         # noqa
        out['str_exc'] = _mro_names(e)[:2] + [str(e)[:200]]
    finally:
        EV.STATE['quiet'] -= 1
    return out


def _make_add(orig, mt):
    def __add__(self, other):
        if not EV.STATE['enabled'] or EV.STATE['depth'] > 0:
            return orig(self, other)
        seq = EV.next_seq()
        ev = {'ev': 'ADD', 'seq': seq, 'ro_obj': id(self), 'msg_obj': id(other),
              'msg_cls': type(other).__name__, 'coll': EV.STATE.get('coll')}
        try:
            ev['pre_xml'] = _ser(self.xml)
            ev['msg_xml'] = _ser(other.xml)
        except BaseException as e:     # not a MosFile at all: stay out of the way
            return orig(self, other)
        wl = []
        EV.WARN_STACK.append(wl)
        EV.STATE['depth'] += 1
        EV.STATE['prims'] = prims = []
        try:
            res = orig(self, other)
        except BaseException as e:
            EV.STATE['depth'] -= 1
            EV.WARN_STACK.pop()
            EV.STATE['prims'] = None
            ev['outcome'] = 'raise'
            ev['exc_mro'] = _mro_names(e)
            ev['exc_msg'] = str(e)[:300]
            try:
                ev['post_xml'] = _ser(self.xml)
                ev['msg_after'] = _ser(other.xml)
            except BaseException:
                ev['post_xml'] = None
            ev['warns'] = wl
            ev['prims'] = prims[:60]
            if EV.STATE.get('state_checks', True):
                ev['rt'] = _roundtrip(self, mt)
            EV.LOG.append(ev)
            EV.COUNTS['add_raise'] += 1
            raise
        EV.STATE['depth'] -= 1
        EV.WARN_STACK.pop()
        EV.STATE['prims'] = None
        ev['outcome'] = 'ret'
        ev['same_obj'] = res is self
        target = res if hasattr(res, 'xml') else self
        try:
            ev['post_xml'] = _ser(target.xml)
            ev['msg_after'] = _ser(other.xml)
        except BaseException:
            ev['post_xml'] = None
        ev['warns'] = wl
        ev['prims'] = prims[:60]
        ev['alias'] = _alias_scan(other.xml, target.xml)
        if EV.STATE.get('state_checks', True):
            ev['rt'] = _roundtrip(target, mt)
        EV.LOG.append(ev)
        EV.COUNTS['add_ret'] += 1
        return res
    __add__.__wrapped__ = orig
    return __add__


def direct_merge(ro, msg):
    """msg.merge(ro) - the documented public method - called directly instead of
    through `+`, recorded exactly like an ADD event (flag direct=True)."""
    import mosromgr.mostypes as mt
    ev = {'ev': 'ADD', 'seq': EV.next_seq(), 'ro_obj': id(ro), 'msg_obj': id(msg),
          'msg_cls': type(msg).__name__, 'direct': True, 'coll': None}
    ev['pre_xml'] = _ser(ro.xml)
    ev['msg_xml'] = _ser(msg.xml)
    wl = []
    EV.WARN_STACK.append(wl)
    EV.STATE['depth'] += 1
    EV.STATE['prims'] = prims = []
    try:
        try:
            res = msg.merge(ro)
            ev['outcome'] = 'ret'
            err = None
        except Exception as e:
            res = ro
            err = e
            ev['outcome'] = 'raise'
            ev['exc_mro'] = _mro_names(e)
            ev['exc_msg'] = str(e)[:300]
    finally:
        EV.STATE['depth'] -= 1
        EV.WARN_STACK.pop()
        EV.STATE['prims'] = None
    target = res if hasattr(res, 'xml') else ro
    ev['post_xml'] = _ser(target.xml)
    ev['msg_after'] = _ser(msg.xml)
    ev['warns'] = wl
    ev['prims'] = prims[:60]
    ev['alias'] = _alias_scan(msg.xml, target.xml) if err is None else None
    ev['rt'] = _roundtrip(target, mt)
    EV.LOG.append(ev)
    EV.COUNTS['direct_merge'] += 1
    return target, err


def _wrap_classmethod(cls, name, source_kind):
    orig = cls.__dict__[name].__func__
    ORIG[name] = orig

    def wrapper(klass, *a, **kw):
        if EV.STATE.get('quiet') or not EV.STATE.get('record_classify'):
            return orig(klass, *a, **kw)
        try:
            r = orig(klass, *a, **kw)
        except BaseException as e:
            EV.LOG.append({'ev': 'CLASSIFY', 'source': source_kind, 'asked': klass.__name__,
                           'outcome': 'raise', 'exc_mro': _mro_names(e), 'arg': _brief(a, kw)})
            raise
        EV.LOG.append({'ev': 'CLASSIFY', 'source': source_kind, 'asked': klass.__name__,
                       'outcome': 'ret', 'cls': type(r).__name__, 'arg': _brief(a, kw)})
        return r
    wrapper.__name__ = name
    setattr(cls, name, classmethod(wrapper))


def _brief(a, kw):
    x = a[0] if a else next(iter(kw.values()), None)
    if isinstance(x, (bytes, bytearray)):
        try:
            x = bytes(x).decode('utf-8', 'replace')
        except Exception:
            x = repr(x)
    return str(x)[:4000]


def _make_coll_merge(orig):
    def merge(self, *a, **kw):
        strict = kw.get('strict', True)
        cseq = EV.next_seq()
        prev = EV.STATE.get('coll')
        EV.STATE['coll'] = cseq
        ev = {'ev': 'COLL_MERGE', 'seq': cseq, 'strict': strict,
              'readers': [getattr(mr, 'message_id', None) for mr in self.mos_readers]}
        n_warn0 = len(EV.ALL_WARNS)
        try:
            r = orig(self, *a, **kw)
        except BaseException as e:
            ev['outcome'] = 'raise'
            ev['exc_mro'] = _mro_names(e)
            ev['warns'] = [w[0] for w in EV.ALL_WARNS[n_warn0:]]
            EV.LOG.append(ev)
            EV.STATE['coll'] = prev
            raise
        ev['outcome'] = 'ret'
        ev['warns'] = [w[0] for w in EV.ALL_WARNS[n_warn0:]]
        EV.LOG.append(ev)
        EV.STATE['coll'] = prev
        return r
    merge.__wrapped__ = orig
    return merge


def repo_root():
    return os.path.realpath(os.environ.get('VERIF_REPO', '/repo'))


def install_types(contracts=True):
    """Stage 1: everything that lives in mosromgr.mostypes / moselements / utils.xml."""
    if _INSTALLED.get('types'):
        return _INSTALLED['info']
    import mosromgr
    import mosromgr.mostypes as mt
    import mosromgr.moselements as me
    import mosromgr.utils.xml as ux
    info = _INSTALLED.setdefault('info', {'attached': []})
    info['file'] = os.path.realpath(mosromgr.__file__)
    want = repo_root()
    info['from_expected_tree'] = info['file'].startswith(want + os.sep)

    # RunningOrder.__add__
    ORIG['add'] = mt.RunningOrder.__add__
    mt.RunningOrder.__add__ = _make_add(ORIG['add'], mt)
    info['attached'].append('RunningOrder.__add__')

    # primitives, in both namespaces
    for name in ('find_child', 'insert_node', 'remove_node', 'replace_node', 'append_node'):
        fn = getattr(ux, name, None)
        if fn is None:
            info.setdefault('missing', []).append('utils.xml.' + name)
            continue
        w = _wrap_primitive(name, fn)
        setattr(ux, name, w)
        if getattr(mt, name, None) is fn:
            setattr(mt, name, w)
        info['attached'].append('prim:' + name)

    # warning emission point
    import warnings as real_warnings
    if getattr(mt, 'warnings', None) is real_warnings:
        mt.warnings = WarnProxy(real_warnings, 'mostypes')
        info['attached'].append('warnings@mostypes')
    else:
        info.setdefault('missing', []).append('warnings@mostypes')

    # classification entry points
    for name, kind in (('from_string', 'string'), ('from_file', 'file'), ('from_s3', 's3')):
        _wrap_classmethod(mt.MosFile, name, kind)
        info['attached'].append('MosFile.' + name)

    if contracts:
        from . import contracts as C
        info['contracts'] = C.attach(mt, me)
    _INSTALLED['types'] = True
    return info


def install_collection():
    """Stage 2: mosromgr.moscollection."""
    if _INSTALLED.get('coll'):
        return _INSTALLED['info']
    import mosromgr.moscollection as mc
    info = _INSTALLED.setdefault('info', {'attached': []})
    import warnings as real_warnings
    if getattr(mc, 'warnings', None) is real_warnings:
        mc.warnings = WarnProxy(real_warnings, 'moscollection')
        info['attached'].append('warnings@moscollection')
    else:
        info.setdefault('missing', []).append('warnings@moscollection')
    ORIG['coll_merge'] = mc.MosCollection.merge
    mc.MosCollection.merge = _make_coll_merge(ORIG['coll_merge'])
    info['attached'].append('MosCollection.merge')
    _INSTALLED['coll'] = True
    return info


def install(contracts=True):
    """Attach every monitor. Idempotent. Returns dict of what was attached."""
    install_types(contracts)
    install_collection()
    _INSTALLED['done'] = True
    return _INSTALLED['info']


def install_fake_s3(fake):
    """Replace boto3 at the mosromgr.utils.s3 boundary and reset the lazy handle."""
    import mosromgr.utils.s3 as s3mod
    s3mod.boto3 = fake
    s3mod.s3._resource = None
    s3mod.s3._client = None
    return s3mod
