"""Reference model: message interpreter + allowed-outcome relation.

Written from the property statements (properties.jsonl C01-C07, C12, C14) and
the MOS text quoted in the class docstrings - not from the merge code.  Imports
nothing from mosromgr.  `judge()` takes one observed transition
(pre_xml, msg_xml, post_xml, outcome, warnings) and returns the list of
deviations from the relation, each attributed to one property.
"""
from collections import Counter
from xml.etree import ElementTree as ET

from .canon import (Abs, canon, retag, sid, iid, items_of, nonitems_of, item_ids,
                    story_sig_wo_items, MESSAGE_TAGS, short)

BLANK = ('blank',)
ABSENT = ('absent',)

SNF = 'StoryNotFoundWarning'
INF = 'ItemNotFoundWarning'
DUP = 'DuplicateStoryWarning'
MOS_WARNINGS = (SNF, INF, DUP, 'MosMergeNonStrictWarning', 'MosRoMgrWarning')

EA_TABLE = {
    ('REPLACE', False, False): 'EAStoryReplace',
    ('REPLACE', True, False): 'EAItemReplace',
    ('DELETE', False, False): 'EAStoryDelete',
    ('DELETE', False, True): 'EAItemDelete',
    ('INSERT', False, False): 'EAStoryInsert',
    ('INSERT', True, False): 'EAItemInsert',
    ('SWAP', False, False): 'EAStorySwap',
    ('SWAP', False, True): 'EAItemSwap',
    ('MOVE', False, False): 'EAStoryMove',
    ('MOVE', True, True): 'EAItemMove',
}

TAG_CLASS = {
    'roCreate': 'RunningOrder', 'roStorySend': 'StorySend', 'roStoryAppend': 'StoryAppend',
    'roStoryDelete': 'StoryDelete', 'roStoryInsert': 'StoryInsert', 'roStoryMove': 'StoryMove',
    'roStoryReplace': 'StoryReplace', 'roItemDelete': 'ItemDelete', 'roItemInsert': 'ItemInsert',
    'roItemMoveMultiple': 'ItemMoveMultiple', 'roItemReplace': 'ItemReplace',
    'roReplace': 'RunningOrderReplace', 'roMetadataReplace': 'MetaDataReplace',
    'roReadyToAir': 'ReadyToAir', 'roDelete': 'RunningOrderEnd',
}

STORY_KINDS = ('roStoryAppend', 'roStoryInsert', 'roStoryReplace', 'roStoryMove',
               'roStoryDelete', 'roStorySend', 'EAStoryInsert', 'EAStoryReplace',
               'EAStoryMove', 'EAStoryDelete', 'EAStorySwap')
ITEM_KINDS = ('roItemInsert', 'roItemReplace', 'roItemMoveMultiple', 'roItemDelete',
              'EAItemInsert', 'EAItemReplace', 'EAItemMove', 'EAItemDelete', 'EAItemSwap')

OPS = {
    'roStoryAppend': 'append', 'roStoryInsert': 'insert', 'roStoryReplace': 'replace',
    'roStoryMove': 'move', 'roStoryDelete': 'delete', 'roStorySend': 'send',
    'EAStoryInsert': 'insert', 'EAStoryReplace': 'replace', 'EAStoryMove': 'move',
    'EAStoryDelete': 'delete', 'EAStorySwap': 'swap',
    'roItemInsert': 'insert', 'roItemReplace': 'replace', 'roItemMoveMultiple': 'move',
    'roItemDelete': 'delete', 'EAItemInsert': 'insert', 'EAItemReplace': 'replace',
    'EAItemMove': 'move', 'EAItemDelete': 'delete', 'EAItemSwap': 'swap',
}

# which reference shapes mean "end" for the target of each kind
END_REFS = {
    'roStoryMove': ('blank', 'absent'),
    'EAStoryInsert': ('blank', 'absent'), 'EAStoryMove': ('blank', 'absent'),
    'roItemInsert': ('blank',), 'roItemMoveMultiple': ('blank',),
    'EAItemInsert': ('blank',), 'EAItemMove': ('blank',),
}


def ref_of(el):
    if el is None:
        return ABSENT
    if el.text is None:
        return BLANK
    return ('id', el.text)


def refs(parent, tag):
    if parent is None:
        return []
    return [ref_of(c) for c in parent if c.tag == tag]


def first_ref(parent, tag):
    r = refs(parent, tag)
    return r[0] if r else ABSENT


def ref_shape(r, known):
    if r[0] == 'id':
        return 'existing' if r[1] in known else 'unknown'
    return r[0]


class Msg:
    __slots__ = ('kind', 'level', 'el', 'story_ref', 'target', 'sources', 'carried',
                 'shape_ok', 'tags_ok', 'notes', 'msg_ro_id', 'message_id', 'root')

    def __init__(self):
        self.kind = None
        self.level = 'none'
        self.el = None
        self.story_ref = ABSENT
        self.target = ABSENT
        self.sources = []
        self.carried = []
        self.shape_ok = True       # in the order / warning claims (C01-C06)
        self.tags_ok = True        # required tags present, IDs possibly blank (the C12 class)
        self.notes = []
        self.msg_ro_id = None
        self.message_id = None


def classify_doc(root):
    """Expected classification of a parsed document: class name, or
    'UnknownMosFileType'.  Decided only by the direct children of the root."""
    for tag in MESSAGE_TAGS:
        el = None
        for c in root:
            if c.tag == tag:
                el = c
                break
        if el is None:
            continue
        if tag != 'roElementAction':
            return TAG_CLASS[tag]
        op = el.attrib.get('operation')
        t = el.find('element_target')
        s = el.find('element_source')
        if s is None:
            return 'UnknownMosFileType'
        ti = t is not None and any(c.tag == 'itemID' for c in t)
        si = any(c.tag == 'itemID' for c in s)
        return EA_TABLE.get((op, ti, si), 'UnknownMosFileType')
    return 'UnknownMosFileType'


CLASS_KIND = {v: k for k, v in TAG_CLASS.items()}


def interpret(root):
    """Read a message document. Returns Msg (kind None if unclassifiable)."""
    m = Msg()
    m.root = root
    mid = root.find('messageID')
    m.message_id = None if mid is None else mid.text
    cls = classify_doc(root)
    if cls == 'UnknownMosFileType':
        return m
    kind = CLASS_KIND.get(cls, cls)      # tag name for plain messages, class name for EA
    m.kind = kind
    tag = 'roElementAction' if kind.startswith('EA') else kind
    el = [c for c in root if c.tag == tag][0]
    m.el = el
    rid = el.find('roID')
    m.msg_ro_id = None if rid is None else rid.text
    if rid is None:
        m.shape_ok = False
        m.tags_ok = False
        m.notes.append('no roID')

    def need(cond, note, tags=True):
        if not cond:
            m.shape_ok = False
            if tags:
                m.tags_ok = False
            m.notes.append(note)

    if kind == 'roCreate':
        m.level = 'create'
    elif kind == 'roStorySend':
        m.level = 'story'
        m.story_ref = first_ref(el, 'storyID')
        m.target = m.story_ref
        need(m.story_ref != ABSENT, 'no storyID')
        need(el.find('storyBody') is not None, 'no storyBody')
        need(len(refs(el, 'storyID')) <= 1, 'several storyID')
    elif kind == 'roStoryAppend':
        m.level = 'story'
        m.carried = [c for c in el if c.tag == 'story']
    elif kind == 'roStoryDelete':
        m.level = 'story'
        m.sources = refs(el, 'storyID')
    elif kind in ('roStoryInsert', 'roStoryReplace'):
        m.level = 'story'
        m.target = first_ref(el, 'storyID')
        m.carried = [c for c in el if c.tag == 'story']
        need(m.target != ABSENT, 'no storyID')
        need(len(refs(el, 'storyID')) <= 1, 'several storyID')
    elif kind == 'roStoryMove':
        m.level = 'story'
        r = refs(el, 'storyID')
        need(1 <= len(r) <= 2, 'storyID count')
        m.sources = r[:1]
        m.target = r[1] if len(r) > 1 else ABSENT
    elif kind == 'roItemDelete':
        m.level = 'item'
        m.story_ref = first_ref(el, 'storyID')
        m.sources = refs(el, 'itemID')
        need(m.story_ref != ABSENT, 'no storyID')
    elif kind in ('roItemInsert', 'roItemReplace'):
        m.level = 'item'
        m.story_ref = first_ref(el, 'storyID')
        m.target = first_ref(el, 'itemID')
        m.carried = [c for c in el if c.tag == 'item']
        need(m.story_ref != ABSENT, 'no storyID')
        need(m.target != ABSENT, 'no itemID')
        need(len(refs(el, 'itemID')) <= 1, 'several itemID')
    elif kind == 'roItemMoveMultiple':
        m.level = 'item'
        m.story_ref = first_ref(el, 'storyID')
        r = refs(el, 'itemID')
        need(m.story_ref != ABSENT, 'no storyID')
        need(len(r) >= 1, 'no itemID')
        m.sources = r[:-1]
        m.target = r[-1] if r else ABSENT
    elif kind == 'roReplace':
        m.level = 'ro'
        m.carried = list(el)
    elif kind == 'roMetadataReplace':
        m.level = 'meta'
        m.carried = list(el)
        need(not any(c.tag in ('story', 'item') for c in el), 'story in metadata')
    elif kind == 'roReadyToAir':
        m.level = 'noop'
    elif kind == 'roDelete':
        m.level = 'end'
    elif kind.startswith('EA'):
        t = el.find('element_target')
        srcs = [c for c in el if c.tag == 'element_source']
        need(len(srcs) == 1, 'element_source count')
        need(len([c for c in el if c.tag == 'element_target']) <= 1, 'element_target count')
        if 'Story' in kind:
            m.level = 'story'
            m.target = first_ref(t, 'storyID')
            if t is not None:
                need(len(refs(t, 'storyID')) <= 1, 'several target storyID')
            for s in srcs:
                m.sources += refs(s, 'storyID')
                m.carried += [c for c in s if c.tag == 'story']
            if kind in ('EAStoryInsert', 'EAStoryReplace'):
                need(not m.sources, 'storyID in source of insert/replace')
                m.sources = []
            else:
                need(not m.carried, 'story in source of move/delete/swap')
                m.carried = []
            if kind == 'EAStorySwap':
                need(len(m.sources) == 2, 'swap needs exactly two storyIDs')
            if kind == 'EAStoryReplace':
                need(m.target != ABSENT, 'no target storyID')
        else:
            m.level = 'item'
            m.story_ref = first_ref(t, 'storyID')
            m.target = first_ref(t, 'itemID')
            need(m.story_ref != ABSENT, 'no target storyID')
            if t is not None:
                need(len(refs(t, 'storyID')) <= 1, 'several target storyID')
                need(len(refs(t, 'itemID')) <= 1, 'several target itemID')
            for s in srcs:
                m.sources += refs(s, 'itemID')
                m.carried += [c for c in s if c.tag == 'item']
            if kind in ('EAItemInsert', 'EAItemReplace'):
                m.sources = []
            else:
                m.carried = []
            if kind == 'EAItemSwap':
                need(len(m.sources) == 2, 'swap needs exactly two itemIDs')
    # carried stories / items must have usable IDs to be in claim
    if m.level == 'story' and m.carried:
        need(all(c.find('storyID') is not None for c in m.carried), 'carried story without storyID tag')
        need(all(sid(c) is not None for c in m.carried), 'carried story with blank ID', tags=False)
    if m.level == 'item' and m.carried:
        need(all(c.find('itemID') is not None for c in m.carried), 'carried item without itemID tag')
        need(all(iid(c) is not None for c in m.carried), 'carried item with blank ID', tags=False)
    return m


# --------------------------------------------------------------------------
# sequence relation

class SeqExp:
    """Allowed outcomes of one sequence operation on a list of unique IDs."""
    __slots__ = ('status', 'alts', 'err_allowed', 'warn_req', 'warn_opt', 'named',
                 'conserve', 'why', 'unapplied')

    def __init__(self):
        self.status = 'ok'      # ok | miss | selfref | ooc
        self.alts = []          # list of token lists; token = ('pre', id) | ('new', k)
        self.err_allowed = False
        self.warn_req = Counter()
        self.warn_opt = Counter()
        self.named = set()      # IDs the message names (sources, target)
        self.conserve = False   # move/swap: multiset of IDs must be conserved
        self.why = ''


def seq_apply(op, kind, L, target, sources, carried_ids, level):
    """The relation of DESIGN 2.4 for one list L (unique, non-None IDs)."""
    x = SeqExp()
    NF = SNF if level == 'story' else INF
    pre = [('pre', i) for i in L]
    ends = END_REFS.get(kind, ())
    x.named = {r[1] for r in list(sources) + [target] if r[0] == 'id'}

    def res(ref):
        if ref[0] == 'id':
            return L.index(ref[1]) if ref[1] in L else None
        return 'end' if ref[0] in ends else None

    def miss(n_req=1, opt=0, why=''):
        x.status = 'miss'
        x.alts = [pre]
        x.err_allowed = True
        x.warn_req = Counter({NF: n_req})
        if opt:
            x.warn_opt = Counter({NF: opt})
        x.why = why
        return x

    if op == 'append':
        if len(set(carried_ids)) != len(carried_ids) or set(carried_ids) & set(L):
            x.status = 'ooc'
            x.why = 'append creates duplicate IDs'
            return x
        x.alts = [pre + [('new', k) for k in range(len(carried_ids))]]
        return x

    if op == 'insert':
        if len(set(carried_ids)) != len(carried_ids):
            x.status = 'ooc'
            x.why = 'duplicate IDs inside the message'
            return x
        dups = [k for k, c in enumerate(carried_ids) if c in L]
        if dups and level == 'item':
            x.status = 'ooc'
            x.why = 'item insert creates duplicate IDs'
            return x
        new = [('new', k) for k, c in enumerate(carried_ids) if c not in L]
        t = res(target)
        end_alt = None
        if kind == 'roStoryInsert' and target == BLANK:
            # hedged in C01: either "at the end" or the miss policy
            end_alt = pre + new
        if t is None:
            miss(why='insert target unresolvable')
            if end_alt is not None:
                x.alts = [pre, end_alt]
                x.status = 'miss-or-end'
                x.warn_opt = Counter({DUP: len(dups), NF: 0})
            # duplicates may additionally be reported
            x.warn_opt[DUP] += len(dups)
            return x
        idx = len(L) if t == 'end' else t
        x.alts = [pre[:idx] + new + pre[idx:]]
        if dups:
            x.status = 'dup'
            x.warn_req = Counter({DUP: len(dups)})
            x.err_allowed = True
        return x

    if op == 'replace':
        t = res(target)
        if t is None:
            return miss(why='replace target unresolvable')
        if not carried_ids:
            x.status = 'ooc'
            x.why = 'replace with nothing'
            return x
        others = set(L) - {L[t]}
        if len(set(carried_ids)) != len(carried_ids) or set(carried_ids) & others:
            x.status = 'ooc'
            x.why = 'replace creates duplicate IDs'
            return x
        x.alts = [pre[:t] + [('new', k) for k in range(len(carried_ids))] + pre[t + 1:]]
        return x

    if op == 'send':
        t = res(target)
        if t is None:
            return miss(why='re-sent story unknown')
        x.alts = [pre[:t] + [('new', 0)] + pre[t + 1:]]
        return x

    if op == 'move':
        x.conserve = True
        src_ids = [r[1] if r[0] == 'id' else None for r in sources]
        real = [s for s in src_ids if s is not None]
        if len(set(real)) != len(real) or (target[0] == 'id' and target[1] in real):
            x.status = 'selfref'
            x.err_allowed = True
            x.why = 'repeated source or target among sources'
            return x
        t = res(target)
        n_src_miss = sum(1 for s in src_ids if s is None or s not in L)
        if t is None:
            return miss(1, n_src_miss, 'move target unresolvable')
        moved = [s for s in src_ids if s is not None and s in L]
        R = [i for i in L if i not in moved]
        j = len(R) if t == 'end' else R.index(target[1])
        x.alts = [[('pre', i) for i in R[:j] + moved + R[j:]]]
        if n_src_miss:
            x.status = 'miss'
            x.err_allowed = True
            x.warn_req = Counter({NF: n_src_miss})
            x.why = 'move source unresolvable'
        return x

    if op == 'delete':
        seen = set()
        n_miss = n_rep = 0
        gone = set()
        for r in sources:
            if r[0] != 'id' or r[1] not in L:
                n_miss += 1
            elif r[1] in seen:
                n_rep += 1
            else:
                seen.add(r[1])
                gone.add(r[1])
        x.alts = [[('pre', i) for i in L if i not in gone]]
        if n_miss or n_rep:
            x.status = 'miss' if n_miss else 'selfref-delete'
            x.err_allowed = True
            x.warn_req = Counter({NF: n_miss})
            x.warn_opt = Counter({NF: n_rep})
            x.why = 'delete names unresolvable / repeated IDs'
        return x

    if op == 'swap':
        x.conserve = True
        if len(sources) != 2:
            x.status = 'ooc'
            x.why = 'swap needs exactly two operands'
            return x
        a, b = sources
        ia, ib = res(a), res(b)
        n_miss = (ia is None) + (ib is None)
        if n_miss:
            return miss(1, n_miss - 1, 'swap operand unresolvable')
        if ia == ib:
            x.status = 'selfref'
            x.err_allowed = True
            x.alts = [pre]
            x.why = 'swap of an element with itself'
            return x
        out = list(pre)
        out[ia], out[ib] = out[ib], out[ia]
        x.alts = [out]
        return x

    raise ValueError(op)


# --------------------------------------------------------------------------
# roStorySend conversion (C04)

def converted_story_canon(ss_el):
    """Canon of the <story> a roStorySend must arrive as: the roStorySend
    element retagged story, children of storyBody spliced at storyBody's
    position in order, direct storyItem children of the body retagged item.
    Built as a real element (independently of the library) so that the
    canonical form sees the same mixed / element-only context as the result."""
    import copy
    e = copy.deepcopy(ss_el)
    e.tag = 'story'
    out = []
    done = False
    for k in list(e):
        if k.tag == 'storyBody' and not done:
            done = True
            for b in list(k):
                if b.tag == 'storyItem':
                    b.tag = 'item'
                out.append(b)
        else:
            out.append(k)
    for k in list(e):
        e.remove(k)
    for k in out:
        e.append(k)
    e.tail = None
    return canon(e)


# --------------------------------------------------------------------------

class Dev:
    __slots__ = ('prop', 'kind', 'detail')

    def __init__(self, prop, kind, detail=None):
        self.prop = prop
        self.kind = kind
        self.detail = detail or {}

    def as_dict(self):
        return {'prop': self.prop, 'kind': self.kind, 'detail': self.detail}

    def __repr__(self):
        return f"Dev({self.prop},{self.kind},{self.detail})"


class Verdict:
    """Result of judging one transition."""
    __slots__ = ('devs', 'sig', 'msg_kind', 'status', 'in_claim', 'nontrivial', 'facts')

    def __init__(self):
        self.devs = []
        self.sig = None
        self.msg_kind = None
        self.status = None
        self.in_claim = True
        self.nontrivial = False
        self.facts = {}


def _is_merge_error(exc_mro):
    # MosMergeError, and through it a member of the library's exception hierarchy
    return 'MosMergeError' in exc_mro and 'MosRoMgrException' in exc_mro


def _position_class(L, m):
    """Relative-position class of sources and target (for coverage signatures)."""
    if m.target[0] != 'id' or m.target[1] not in L:
        tpos = m.target[0] if m.target[0] != 'id' else 'unknown'
        ti = None
    else:
        ti = L.index(m.target[1])
        tpos = 'first' if ti == 0 else ('last' if ti == len(L) - 1 else 'mid')
    rel = []
    for r in m.sources[:3]:
        if r[0] != 'id':
            rel.append(r[0])
        elif r[1] not in L:
            rel.append('unknown')
        elif ti is None:
            rel.append('x')
        else:
            si = L.index(r[1])
            d = si - ti
            rel.append('adjbefore' if d == -1 else 'before' if d < 0 else
                       'self' if d == 0 else 'adjafter' if d == 1 else 'after')
    return (tpos, tuple(rel), min(len(m.sources), 4), min(len(m.carried), 4))


def judge(pre_xml, msg_xml, post_xml, outcome, warns, exc_mro=()):
    """Judge one observed `ro + msg` transition.

    outcome: 'ret' | 'raise';  warns: list of warning category names observed
    during the call;  exc_mro: class names of the raised exception's MRO.
    """
    v = Verdict()
    D = v.devs
    try:
        pre = Abs(pre_xml)
        post = Abs(post_xml)
        mroot = ET.fromstring(msg_xml)
    except ET.ParseError as e:   # monitor serialisation unreadable: C14 territory
        D.append(Dev('C14', 'state-not-wellformed', {'error': str(e)}))
        v.in_claim = False
        return v
    m = interpret(mroot)
    v.msg_kind = m.kind
    mos_warns = Counter(w for w in warns if w in MOS_WARNINGS)
    for w in warns:
        if isinstance(w, str) and w.startswith('!outside-hierarchy:'):
            D.append(Dev('C06', 'warning-category-outside-the-documented-hierarchy', {'category': w.split(':', 1)[1]}))
    raised = outcome == 'raise'
    changed_bytes = pre_xml != post_xml
    changed = canon(pre.root) != canon(post.root)
    v.nontrivial = changed_bytes or raised or bool(mos_warns)
    v.facts = {'raised': raised, 'changed': changed, 'warns': dict(mos_warns), 'merge_error': _is_merge_error(exc_mro)}

    # ---- C05: a raising add leaves the running order exactly as it was
    if raised and changed_bytes:
        D.append(Dev('C05', 'raise-left-state-changed',
                     {'exc': exc_mro[:1], 'kind': m.kind,
                      'story_ids_pre': pre.story_ids, 'story_ids_post': post.story_ids}))

    # ---- C07 (always on): completed running orders refuse everything
    if pre.completed:
        v.status = 'completed'
        if not raised:
            D.append(Dev('C07', 'completed-accepted-message', {'kind': m.kind}))
            if changed:
                D.append(Dev('C07', 'completed-state-changed', {'kind': m.kind}))
        elif 'MosCompletedMergeError' not in exc_mro:
            D.append(Dev('C07', 'completed-wrong-exception', {'exc': list(exc_mro[:2])}))
            if not _is_merge_error(exc_mro):
                D.append(Dev('C12', 'foreign-exception', {'exc': list(exc_mro[:2]), 'kind': m.kind}))
        v.sig = ('completed', m.kind, 'raise' if raised else 'ret')
        # envelope invariants hold in every reachable state, this one included
        if len(post.metas) > 1:
            D.append(Dev('C14', 'several-completion-records', {'n': len(post.metas), 'kind': m.kind}))
        if len(post.rcs) != 1:
            D.append(Dev('C14', 'roCreate-count', {'n': len(post.rcs), 'kind': m.kind}))
        return v

    if m.kind is None or m.kind == 'roCreate' or pre.rc is None:
        v.in_claim = False
        v.status = 'ooc'
        v.sig = ('ooc', m.kind)
        return v

    # ---- C12: only MosMergeError escapes for schema-shaped messages
    if raised and m.tags_ok and not _is_merge_error(exc_mro):
        D.append(Dev('C12', 'foreign-exception', {'exc': list(exc_mro[:2]), 'kind': m.kind,
                                                  'notes': list(m.notes)}))
    if raised and 'MosCompletedMergeError' in exc_mro:
        D.append(Dev('C07', 'refused-but-not-completed', {'kind': m.kind}))

    if not m.shape_ok:
        # Not schema-shaped: only the no-collateral part of C03 is judged when
        # the library returned (everything the message could not name must be
        # untouched) - done by the generic envelope check below.
        v.in_claim = False
        v.status = 'unshaped'
        v.sig = ('unshaped', m.kind, tuple(m.notes))
        if not raised:
            _generic_c03(pre, post, m, D, allow_meta=(m.level in ('meta', 'ro')))
            if m.level in ('story', 'item') and set(m.notes) <= ABSENT_REF_NOTES:
                _no_collateral_for_missing_reference(pre, post, m, D)
            if set(m.notes) <= BLANK_CARRIED_NOTES:
                _blank_carried_arrives(pre, post, m, D)
        return v

    # ---- envelope / C14 invariants on the post state
    _c14_envelope(pre, post, m, D)

    level = m.level
    if level == 'end':
        _judge_rodelete(pre, post, m, raised, mos_warns, D)
        v.status = 'end'
        v.sig = ('roDelete', 'raise' if raised else 'ret')
        return v
    if post.completed:
        D.append(Dev('C07', 'completed-without-roDelete', {'kind': m.kind}))
    if level == 'noop':
        if raised:
            D.append(Dev('C03', 'noop-raised', {'kind': m.kind}))
        else:
            if changed:
                D.append(Dev('C03', 'noop-changed-state', {'kind': m.kind}))
            if mos_warns:
                D.append(Dev('C06', 'warning-on-fully-applied', {'warns': dict(mos_warns)}))
        v.status = 'ok'
        v.sig = (m.kind, 'raise' if raised else 'ret')
        return v
    if level == 'ro':
        _judge_roreplace(pre, post, m, raised, mos_warns, D)
        v.status = 'ok'
        v.sig = (m.kind, len(post.stories) > 0, 'raise' if raised else 'ret')
        return v
    if level == 'meta':
        _judge_metadata(pre, post, m, raised, mos_warns, D, v)
        return v
    if level == 'story':
        _judge_story(pre, post, m, raised, mos_warns, D, v)
        return v
    if level == 'item':
        _judge_item(pre, post, m, raised, mos_warns, D, v)
        return v
    v.in_claim = False
    return v


def _multiset_delete(L, post_ids, sources, mos_warns, NF, kind, D):
    """C06 for a delete where IDs repeat (in the running order / story, or in the message).  What is claimed:
    an ID that is listed is acted on - of m elements carrying it and k listings, either k of them go (one per
    listing) or all of them (the ID names them all), never fewer; elements whose ID is not listed stay; every
    listed ID that no element carries is reported once, and listings that find nothing left MAY be reported.
    Which of several same-ID elements goes first is not claimed."""
    have = Counter(L)
    listed = Counter(r[1] for r in sources if r[0] == 'id')
    got = Counter(post_ids)
    bad = None
    for i, m_ in have.items():
        k = listed.get(i, 0)
        left = got.get(i, 0)
        allowed = {m_} if k == 0 else {max(m_ - k, 0), 0}
        if left not in allowed:
            bad = (i, m_, k, left)
            break
    if bad is None and any(i not in have for i in got):
        bad = ('new element', 0, 0, 1)
    n_unknown = sum(1 for r in sources if r[0] != 'id' or r[1] not in have)
    n_repeat = sum(max(k - have.get(i, 0), 0) for i, k in listed.items() if i in have) + \
        sum(max(k - 1, 0) for i, k in listed.items() if i in have)
    n_warn = Counter(mos_warns).get(NF, 0)
    if bad is not None:
        D.append(Dev('C06', 'listed-id-not-acted-on',
                     {'kind': kind, 'pre': L, 'post': post_ids, 'sources': sources, 'id': bad[0], 'carried_by': bad[1],
                      'listed': bad[2], 'left': bad[3],
                      'why': 'IDs repeat: of m elements with a listed ID either one per listing goes, or all'}))
    elif n_warn < n_unknown:
        D.append(Dev('C06', 'unreported-element', {'kind': kind, 'expected_at_least': {NF: n_unknown},
                                                   'observed': dict(Counter(mos_warns)), 'why': 'delete over repeated IDs'}))
    elif n_warn > n_unknown + n_repeat:
        D.append(Dev('C06', 'warning-on-fully-applied', {'kind': kind, 'expected_at_most': {NF: n_unknown + n_repeat},
                                                         'observed': dict(Counter(mos_warns)), 'why': 'delete over repeated IDs'}))


BLANK_CARRIED_NOTES = {'carried story with blank ID', 'carried item with blank ID'}


def _blank_carried_arrives(pre, post, m, D):
    """C04 for a message that is schema-shaped except that a carried story / item has a BLANK ID
    (the tag is there): when the add returned, that element is in the running order with the content
    sent - unless an element without an ID was there already (then it may count as a duplicate) or the
    target did not resolve."""
    op = OPS.get(m.kind)
    if op not in ('insert', 'append', 'replace'):
        return
    if m.level == 'story':
        if None in pre.story_ids:
            return
        if op != 'append' and not (m.target[0] == 'id' and m.target[1] in pre.story_ids) and \
                not (op == 'insert' and m.target[0] in END_REFS.get(m.kind, ())):
            return
        have_pre, have_post = Counter(pre.story_canons), Counter(post.story_canons)
        for c in m.carried:
            if sid(c) is None and have_post[canon(c)] < have_pre[canon(c)] + 1:
                D.append(Dev('C04', 'carried-story-with-blank-id-missing',
                             {'kind': m.kind, 'pre': pre.story_ids, 'post': post.story_ids}))
                return
    elif m.level == 'item':
        if not (m.story_ref[0] == 'id' and pre.story_ids.count(m.story_ref[1]) == 1):
            return
        ps, qs = pre.story(m.story_ref[1]), post.story(m.story_ref[1])
        if qs is None or None in item_ids(ps):
            return
        L = item_ids(ps)
        if not (m.target[0] == 'id' and m.target[1] in L) and not (op == 'insert' and m.target[0] in END_REFS.get(m.kind, ())):
            return
        have_pre = Counter(canon(i) for i in items_of(ps))
        have_post = Counter(canon(i) for i in items_of(qs))
        for c in m.carried:
            if iid(c) is None and have_post[canon(c)] < have_pre[canon(c)] + 1:
                D.append(Dev('C04', 'carried-item-with-blank-id-missing',
                             {'kind': m.kind, 'story': m.story_ref[1], 'pre': L, 'post': item_ids(qs)}))
                return


ABSENT_REF_NOTES = {'no storyID', 'no itemID', 'no target storyID'}


def _is_subseq(a, b):
    it = iter(b)
    return all(any(x == y for y in it) for x in a)


def _no_collateral_for_missing_reference(pre, post, m, D):
    """C03, last sentence, for a message whose required reference TAG is missing:
    whatever the library makes of it, no story / item that was in the running
    order may be modified, removed, replaced or displaced (new elements may be
    added, e.g. when a missing itemID is read as "end")."""
    det = {'kind': m.kind, 'notes': list(m.notes), 'pre': pre.story_ids, 'post': post.story_ids}
    if m.level == 'story':
        if not _is_subseq(pre.story_canons, post.story_canons):
            D.append(Dev('C03', 'missing-reference-changed-existing-stories', det))
        return
    if post.story_ids != pre.story_ids:
        D.append(Dev('C03', 'missing-reference-changed-existing-stories', det))
        return
    for i, a, b in zip(pre.story_ids, pre.stories, post.stories):
        if story_sig_wo_items(a) != story_sig_wo_items(b) or not _is_subseq(
                [canon(x) for x in items_of(a)], [canon(x) for x in items_of(b)]):
            D.append(Dev('C03', 'missing-reference-changed-existing-items', dict(det, story=i)))
            return


def _generic_c03(pre, post, m, D, allow_meta=False, allow_stories=False):
    """Envelope, running-order element signature and metadata subsequence."""
    if pre.root_sig != post.root_sig or pre.envelope != post.envelope:
        D.append(Dev('C03', 'envelope-changed', {'kind': m.kind}))
    if post.rc is None:
        D.append(Dev('C03', 'running-order-element-lost', {'kind': m.kind}))
        return
    if not allow_meta:
        if pre.rc_sig != post.rc_sig:
            D.append(Dev('C03', 'roCreate-attributes-changed', {'kind': m.kind}))
        if pre.meta_canons != post.meta_canons:
            D.append(Dev('C03', 'ro-metadata-changed',
                         {'kind': m.kind,
                          'pre_tags': [c[0] for c in pre.meta_canons],
                          'post_tags': [c[0] for c in post.meta_canons]}))


def _c14_envelope(pre, post, m, D):
    if len(post.rcs) != 1:
        D.append(Dev('C14', 'roCreate-count', {'n': len(post.rcs), 'kind': m.kind}))
    if len(post.metas) > 1:
        D.append(Dev('C14', 'several-completion-records', {'n': len(post.metas)}))
    a = pre.root.find('messageID')
    b = post.root.find('messageID')
    if (a is None) != (b is None) or (a is not None and a.text != b.text):
        D.append(Dev('C14', 'messageID-changed', {'kind': m.kind}))
    if pre.rc is not None and post.rc is not None:
        ra, rb = pre.rc.find('roID'), post.rc.find('roID')
        pre_id = None if ra is None else ra.text
        post_id = None if rb is None else rb.text
        if m.msg_ro_id == pre_id and post_id != pre_id:
            D.append(Dev('C14', 'roID-changed', {'kind': m.kind, 'pre': pre_id, 'post': post_id}))


def _warn_check(observed, x, D, raised, kind):
    """C06: warnings multiset vs the relation's."""
    if raised:
        return
    need = +x.warn_req
    opt = +x.warn_opt
    obs = Counter(observed)
    if x.status == 'selfref':
        return
    missing = need - obs
    extra = obs - need - opt
    if missing:
        D.append(Dev('C06', 'unreported-element',
                     {'kind': kind, 'expected': dict(need), 'observed': dict(obs), 'why': x.why}))
    if extra:
        label = 'warning-on-fully-applied' if x.status == 'ok' else 'surplus-or-wrong-category-warning'
        D.append(Dev('C06', label,
                     {'kind': kind, 'expected': dict(need), 'optional': dict(opt),
                      'observed': dict(obs), 'why': x.why}))


def _tokens_ids(tokens, new_ids):
    return [t[1] if t[0] == 'pre' else new_ids[t[1]] for t in tokens]


def _judge_story(pre, post, m, raised, mos_warns, D, v):
    kind = m.kind
    op = OPS[kind]
    P_ORDER = 'C01'
    L = pre.story_ids
    known = set(L)
    shapes = (ref_shape(m.target, known),) + tuple(sorted({ref_shape(r, known) for r in m.sources}))
    _generic_c03(pre, post, m, D)
    post_ids = post.story_ids
    conserve = op in ('move', 'swap')
    if conserve and Counter(post_ids) != Counter(L):
        D.append(Dev(P_ORDER, 'move-or-swap-changed-story-multiset',
                     {'kind': kind, 'pre': L, 'post': post_ids}))
    if not pre.unique_story_ids():
        v.in_claim = False
        v.status = 'ooc'
        v.sig = ('ooc-dup-stories', kind)
        # repeated or missing story IDs leave the order claim undefined - but a message none of whose
        # references names an existing story (blank, absent, unknown) still may not touch any story
        refs = list(m.sources) + ([m.target] if op not in ('append', 'delete') else [])
        if op == 'send':
            refs = [m.story_ref]
        nothing_resolves = bool(refs) and not any(r[0] == 'id' and r[1] in known for r in refs)
        # ... and a message that names none of the repeated (or ID-less) stories - every reference resolves to
        # an ID that occurs once, nothing it carries bears an existing ID - leaves those stories alone and,
        # when it returns, has been applied in full: nothing to report
        cnt_ = Counter(L)
        car_ = [sid(c) for c in m.carried] if op not in ('send',) else []
        names_no_repeat = (op == 'append' or (bool(refs) and all(r[0] == 'id' and cnt_.get(r[1], 0) == 1 for r in refs))) \
            and all(i is not None and i not in cnt_ for i in car_) and len(set(car_)) == len(car_) and op != 'send'
        if names_no_repeat and not raised:
            rep_ = {i for i, c_ in cnt_.items() if c_ > 1 or i is None}
            pre_rep = [c_ for i, c_ in zip(L, pre.story_canons) if i in rep_]
            post_rep = [c_ for i, c_ in zip(post_ids, post.story_canons) if i in rep_]
            v.sig = ('ooc-dup-stories', kind, 'names-none-of-the-repeated')
            if pre_rep != post_rep:
                D.append(Dev('C03', 'unnamed-stories-with-repeated-ids-changed',
                             {'kind': kind, 'pre': L, 'post': post_ids, 'target': m.target, 'sources': m.sources}))
            if mos_warns:
                D.append(Dev('C06', 'warning-on-fully-applied',
                             {'kind': kind, 'warns': dict(Counter(mos_warns)), 'pre': L, 'post': post_ids,
                              'why': 'the message names none of the repeated story IDs and every reference resolves'}))
        if op == 'delete' and not raised and not nothing_resolves:
            _multiset_delete(L, post_ids, m.sources, mos_warns, SNF, kind, D)
        if nothing_resolves and not raised:
            same = (post.story_canons == pre.story_canons) if op in ('delete', 'move', 'swap', 'replace', 'send') \
                else _is_subseq(pre.story_canons, post.story_canons)
            v.sig = ('ooc-dup-stories', kind, 'nothing-resolves')
            if not same:
                D.append(Dev('C03', 'unresolvable-reference-changed-other-stories',
                             {'kind': kind, 'pre': L, 'post': post_ids, 'target': m.target, 'sources': m.sources,
                              'why': 'no reference names an existing story (the running order has repeated / missing story IDs)'}))
            if op == 'delete' and Counter(mos_warns).get(SNF, 0) != len(m.sources):
                D.append(Dev('C06', 'unreported-element',
                             {'kind': kind, 'expected': {SNF: len(m.sources)}, 'observed': dict(Counter(mos_warns)),
                              'why': 'delete names only unresolvable IDs (running order with repeated / missing story IDs)'}))
        return
    carried_ids = [sid(c) for c in m.carried]
    if op == 'send':
        carried_canons = [converted_story_canon(m.el)]
        carried_ids = [m.story_ref[1] if m.story_ref[0] == 'id' else None]
    else:
        carried_canons = [canon(c) for c in m.carried]
    x = seq_apply(op, kind, L, m.target, m.sources, carried_ids, 'story')
    v.status = x.status
    v.sig = (kind, x.status, shapes, _position_class(L, m), pre.layout(), min(len(L), 6),
             'raise' if raised else ('warn' if mos_warns else 'ret'))
    if x.status == 'ooc':
        v.in_claim = False
        return
    pre_canon = dict(zip(L, pre.story_canons))
    if raised:
        # where the relation lets the library refuse (a repeated / self-referential reference), the refusal is a
        # MosMergeError; any other exception on a message whose references all resolve is not the protocol's outcome
        if not x.err_allowed or (x.status in ('selfref', 'selfref-delete') and not v.facts.get('merge_error')):
            D.append(Dev(P_ORDER, 'raised-on-resolvable-message',
                         {'kind': kind, 'pre': L, 'target': m.target, 'sources': m.sources,
                          'library_error': bool(v.facts.get('merge_error'))}))
        return
    _warn_check(mos_warns, x, D, raised, kind)
    if x.status == 'selfref':
        unnamed_pre = [i for i in L if i not in x.named]
        unnamed_post = [i for i in post_ids if i not in x.named]
        if unnamed_pre != unnamed_post:
            D.append(Dev('C03', 'unnamed-stories-displaced', {'kind': kind, 'pre': L, 'post': post_ids}))
        for i, c in zip(post_ids, post.story_canons):
            if i in pre_canon and pre_canon[i] != c:
                D.append(Dev('C03', 'story-content-changed', {'kind': kind, 'story': i}))
        return
    ok_alt = None
    for alt in x.alts:
        if _tokens_ids(alt, carried_ids) == post_ids:
            ok_alt = alt
            break
    if ok_alt is None:
        exp = [_tokens_ids(a, carried_ids) for a in x.alts]
        det = {'kind': kind, 'pre': L, 'post': post_ids, 'allowed': exp,
               'target': m.target, 'sources': m.sources, 'carried': carried_ids, 'why': x.why}
        if x.status in ('ok', 'dup'):
            D.append(Dev(P_ORDER, 'story-order-not-protocol', det))
            # a carried story that every allowed outcome contains and the running order does not: it has not arrived
            due = [i for k_, i in enumerate(carried_ids) if i is not None and all(('new', k_) in a for a in x.alts)]
            lost = [i for i in due if post_ids.count(i) < max(1, min(_tokens_ids(a, carried_ids).count(i) for a in x.alts))]
            if lost:
                D.append(Dev('C04', 'carried-story-did-not-arrive', dict(det, lost=lost)))
            if len(m.sources) > 1 and op in ('delete', 'move'):
                named = [r[1] for r in m.sources if r[0] == 'id']
                if op == 'delete' and any(i in post_ids for i in named):
                    D.append(Dev('C06', 'listed-id-not-acted-on', det))
                if op == 'move' and post_ids == L:
                    D.append(Dev('C06', 'listed-id-not-acted-on', det))
        else:
            unnamed_pre = [i for i in L if i not in x.named]
            unnamed_post = [i for i in post_ids if i not in x.named and i not in carried_ids]
            anchor = x.alts[0] == [('pre', i) for i in L]
            if unnamed_pre != unnamed_post or anchor:
                D.append(Dev('C03', 'unresolvable-reference-changed-other-stories', det))
            if not anchor:
                D.append(Dev('C06', 'remaining-elements-not-applied', det))
            if unnamed_pre == unnamed_post and anchor:
                pass
        return
    # stories the message does not name and the running-order metadata keep their relative order - as ONE
    # sequence (a story operation that is right about the story IDs may still carry the others past the metadata)
    moved = set(x.named) | {i for i in carried_ids if i is not None}
    def unnamed(a):
        return [('story', sid(c)) if c.tag == 'story' else ('meta', canon(c)) for c in a.entries
                if c.tag != 'story' or sid(c) not in moved]
    if unnamed(pre) != unnamed(post):
        D.append(Dev('C03', 'unnamed-stories-and-metadata-changed-relative-order',
                     {'kind': kind, 'named': sorted(str(i) for i in moved),
                      'pre': [t[1] if t[0] == 'story' else '<%s>' % t[1][0] for t in unnamed(pre)],
                      'post': [t[1] if t[0] == 'story' else '<%s>' % t[1][0] for t in unnamed(post)]}))
    # same IDs: compare content per position
    for tok, c in zip(ok_alt, post.story_canons):
        if tok[0] == 'pre':
            if pre_canon[tok[1]] != c:
                D.append(Dev('C03', 'story-content-changed', {'kind': kind, 'story': tok[1]}))
        else:
            if carried_canons[tok[1]] != c:
                D.append(Dev('C04', 'carried-story-content-differs',
                             {'kind': kind, 'story': carried_ids[tok[1]],
                              'sent': short(carried_canons[tok[1]], 400), 'got': short(c, 400)}))


def _judge_item(pre, post, m, raised, mos_warns, D, v):
    kind = m.kind
    op = OPS[kind]
    _generic_c03(pre, post, m, D)
    S = pre.story_ids
    known_s = set(S)
    sshape = ref_shape(m.story_ref, known_s)
    # story sequence must be untouched by any item-level message
    if post.story_ids != S:
        D.append(Dev('C03', 'item-message-changed-story-sequence',
                     {'kind': kind, 'pre': S, 'post': post.story_ids}))
        v.status = 'broken'
        v.sig = (kind, 'story-seq-changed')
        return
    if not pre.unique_story_ids():
        v.in_claim = False
        v.status = 'ooc'
        v.sig = ('ooc-dup-stories', kind)
        return
    addressed = m.story_ref[1] if sshape == 'existing' else None
    # every other story deep-identical
    for i, a, b in zip(S, pre.story_canons, post.story_canons):
        if i != addressed and a != b:
            D.append(Dev('C03', 'other-story-changed-by-item-message',
                         {'kind': kind, 'addressed': m.story_ref, 'changed_story': i}))
    n_listed = len(m.sources) + len(m.carried)
    if addressed is None:
        v.status = 'miss-story'
        v.sig = (kind, 'miss-story', sshape, 'raise' if raised else ('warn' if mos_warns else 'ret'))
        if raised:
            return
        x = SeqExp()
        x.status = 'miss'
        x.warn_req = Counter({SNF: 1})
        x.warn_opt = Counter({INF: max(n_listed, 1)})
        x.why = 'addressed story unresolvable'
        _warn_check(mos_warns, x, D, raised, kind)
        return
    ps = pre.story(addressed)
    qs = post.story(addressed)
    L = item_ids(ps)
    post_ids = item_ids(qs)
    conserve = op in ('move', 'swap')
    if conserve and Counter(post_ids) != Counter(L):
        D.append(Dev('C02', 'move-or-swap-changed-item-multiset',
                     {'kind': kind, 'pre': L, 'post': post_ids}))
    if story_sig_wo_items(ps) != story_sig_wo_items(qs):
        D.append(Dev('C03', 'non-item-content-of-story-changed', {'kind': kind, 'story': addressed}))
    if len(set(L)) != len(L) or None in L:
        v.in_claim = False
        v.status = 'ooc'
        v.sig = ('ooc-dup-items', kind)
        # as for stories: references that name no existing item may not touch any item
        have = {i for i in L if i is not None}
        refs = list(m.sources) + ([m.target] if op in ('replace', 'move', 'insert') else [])
        nothing_resolves = bool(refs) and not any(r[0] == 'id' and r[1] in have for r in refs)
        if op == 'delete' and not raised and not nothing_resolves:
            _multiset_delete(L, post_ids, m.sources, mos_warns, INF, kind, D)
        if nothing_resolves and not raised:
            pc = [canon(i) for i in items_of(ps)]
            qc = [canon(i) for i in items_of(qs)]
            same = (pc == qc) if op in ('delete', 'move', 'swap', 'replace') else _is_subseq(pc, qc)
            v.sig = ('ooc-dup-items', kind, 'nothing-resolves')
            if not same:
                D.append(Dev('C03', 'unresolvable-reference-changed-other-items',
                             {'kind': kind, 'story': addressed, 'pre': L, 'post': post_ids, 'target': m.target,
                              'sources': m.sources,
                              'why': 'no reference names an existing item (the story has repeated / missing item IDs)'}))
            if op == 'delete' and Counter(mos_warns).get(INF, 0) != len(m.sources):
                D.append(Dev('C06', 'unreported-element',
                             {'kind': kind, 'expected': {INF: len(m.sources)}, 'observed': dict(Counter(mos_warns)),
                              'why': 'delete names only unresolvable IDs (story with repeated / missing item IDs)'}))
        return
    known = set(L)
    shapes = (sshape, ref_shape(m.target, known)) + tuple(sorted({ref_shape(r, known) for r in m.sources}))
    carried_ids = [iid(c) for c in m.carried]
    carried_canons = [canon(c) for c in m.carried]
    x = seq_apply(op, kind, L, m.target, m.sources, carried_ids, 'item')
    interleaved = any(c.tag != 'item' for c in list(ps)[_first_item_index(ps):_last_item_index(ps) + 1])
    other_same_id = any(set(item_ids(s)) & (known | set(carried_ids))
                        for s in pre.stories if sid(s) != addressed)
    v.status = x.status
    v.sig = (kind, x.status, shapes, _position_class(L, m), 'inter' if interleaved else 'adj',
             'shared-ids' if other_same_id else 'own-ids', min(len(L), 6),
             'raise' if raised else ('warn' if mos_warns else 'ret'))
    if x.status == 'ooc':
        v.in_claim = False
        return
    pre_canon = dict(zip(L, [canon(i) for i in items_of(ps)]))
    post_canons = [canon(i) for i in items_of(qs)]
    if raised:
        if not x.err_allowed or (x.status in ('selfref', 'selfref-delete') and not v.facts.get('merge_error')):
            D.append(Dev('C02', 'raised-on-resolvable-message',
                         {'kind': kind, 'pre': L, 'target': m.target, 'sources': m.sources,
                          'library_error': bool(v.facts.get('merge_error'))}))
        return
    _warn_check(mos_warns, x, D, raised, kind)
    if x.status == 'selfref':
        unnamed_pre = [i for i in L if i not in x.named]
        unnamed_post = [i for i in post_ids if i not in x.named]
        if unnamed_pre != unnamed_post:
            D.append(Dev('C03', 'unnamed-items-displaced', {'kind': kind, 'pre': L, 'post': post_ids}))
        for i, c in zip(post_ids, post_canons):
            if i in pre_canon and pre_canon[i] != c:
                D.append(Dev('C03', 'item-content-changed', {'kind': kind, 'item': i}))
        return
    ok_alt = None
    for alt in x.alts:
        if _tokens_ids(alt, carried_ids) == post_ids:
            ok_alt = alt
            break
    if ok_alt is None:
        exp = [_tokens_ids(a, carried_ids) for a in x.alts]
        det = {'kind': kind, 'story': addressed, 'pre': L, 'post': post_ids, 'allowed': exp,
               'target': m.target, 'sources': m.sources, 'carried': carried_ids, 'why': x.why}
        if x.status in ('ok', 'dup'):
            D.append(Dev('C02', 'item-order-not-protocol', det))
            if len(m.sources) > 1 and op in ('delete', 'move'):
                named = [r[1] for r in m.sources if r[0] == 'id']
                if op == 'delete' and any(i in post_ids for i in named):
                    D.append(Dev('C06', 'listed-id-not-acted-on', det))
                if op == 'move' and post_ids == L:
                    D.append(Dev('C06', 'listed-id-not-acted-on', det))
        else:
            unnamed_pre = [i for i in L if i not in x.named]
            unnamed_post = [i for i in post_ids if i not in x.named and i not in carried_ids]
            anchor = x.alts[0] == [('pre', i) for i in L]
            if unnamed_pre != unnamed_post or anchor:
                D.append(Dev('C03', 'unresolvable-reference-changed-other-items', det))
            if not anchor:
                D.append(Dev('C06', 'remaining-elements-not-applied', det))
        return
    for tok, c in zip(ok_alt, post_canons):
        if tok[0] == 'pre':
            if pre_canon[tok[1]] != c:
                D.append(Dev('C03', 'item-content-changed', {'kind': kind, 'item': tok[1]}))
        else:
            if carried_canons[tok[1]] != c:
                D.append(Dev('C04', 'carried-item-content-differs',
                             {'kind': kind, 'item': carried_ids[tok[1]],
                              'sent': short(carried_canons[tok[1]], 400), 'got': short(c, 400)}))


def _first_item_index(st):
    for i, c in enumerate(st):
        if c.tag == 'item':
            return i
    return 0


def _last_item_index(st):
    last = -1
    for i, c in enumerate(st):
        if c.tag == 'item':
            last = i
    return last


def meta_key(c):
    """Identity of a running-order metadata element: its tag, plus mosSchema
    for mosExternalMetadata blocks (element c is an Element)."""
    if c.tag == 'mosExternalMetadata':
        s = c.find('mosSchema')
        return (c.tag, None if s is None else s.text)
    return (c.tag, None)


def _judge_metadata(pre, post, m, raised, mos_warns, D, v):
    kind = m.kind
    carried = m.carried
    keys = [meta_key(c) for c in carried]
    pre_keys = [meta_key(c) for c in pre.meta]
    v.status = 'ok'
    v.sig = (kind, tuple(sorted({k[0] for k in keys})),
             tuple(sorted('replace' if k in pre_keys else 'add' for k in keys)),
             'raise' if raised else 'ret')
    blank_schema = any(c.tag == 'mosExternalMetadata' and c.find('mosSchema') is not None and not (c.find('mosSchema').text or '').strip()
                       for c in list(carried) + list(pre.meta))
    if len(set(keys)) != len(keys) or len(set(pre_keys)) != len(pre_keys) or blank_schema:
        v.in_claim = False       # ambiguous identities (also: a BLANK mosSchema - is it "no schema"?): outside the claim
        v.status = 'ooc'
        _generic_c03(pre, post, m, D, allow_meta=True)
        return
    if raised:
        D.append(Dev('C03', 'metadata-replace-raised', {'kind': kind}))
        return
    _generic_c03(pre, post, m, D, allow_meta=True)
    if mos_warns:
        D.append(Dev('C06', 'warning-on-fully-applied', {'warns': dict(mos_warns)}))
    # stories untouched
    if post.story_ids != pre.story_ids:
        D.append(Dev('C03', 'metadata-replace-changed-story-sequence',
                     {'pre': pre.story_ids, 'post': post.story_ids}))
    else:
        for i, a, b in zip(pre.story_ids, pre.story_canons, post.story_canons):
            if a != b:
                D.append(Dev('C03', 'metadata-replace-changed-story', {'story': i}))
    # every old metadata entry not carried is still there, same relative order
    kept_pre = [canon(c) for c in pre.meta if meta_key(c) not in keys]
    kept_post = [canon(c) for c in post.meta if meta_key(c) not in keys]
    if kept_pre != kept_post:
        D.append(Dev('C03', 'uncarried-metadata-changed',
                     {'carried': [list(k) for k in keys],
                      'pre': [list(meta_key(c)) for c in pre.meta],
                      'post': [list(meta_key(c)) for c in post.meta]}))
    elif post.story_ids == pre.story_ids:
        # ... and the uncarried entries - stories and metadata together - keep their relative order
        seq = lambda a: [('story', sid(c)) if c.tag == 'story' else meta_key(c)
                         for c in a.entries if c.tag == 'story' or meta_key(c) not in keys]
        if seq(pre) != seq(post):
            D.append(Dev('C03', 'metadata-replace-reordered-uncarried-entries',
                         {'carried': [list(k) for k in keys], 'pre': [list(x) for x in seq(pre)],
                          'post': [list(x) for x in seq(post)]}))
    # every carried element is present with the sent content (exactly once)
    for c, k in zip(carried, keys):
        got = [canon(p) for p in post.meta if meta_key(p) == k]
        if got != [canon(c)]:
            D.append(Dev('C04', 'carried-metadata-missing-or-differs',
                         {'key': list(k), 'n_found': len(got)}))


def _judge_roreplace(pre, post, m, raised, mos_warns, D):
    if raised:
        D.append(Dev('C04', 'roReplace-raised', {}))
        return
    _generic_c03(pre, post, m, D, allow_meta=True)
    if mos_warns:
        D.append(Dev('C06', 'warning-on-fully-applied', {'warns': dict(mos_warns)}))
    if post.rc is None:
        return
    if canon(post.rc) != retag(canon(m.el), 'roCreate'):
        D.append(Dev('C04', 'roReplace-content-differs',
                     {'sent_stories': [sid(c) for c in m.el if c.tag == 'story'],
                      'got_stories': post.story_ids}))


def _judge_rodelete(pre, post, m, raised, mos_warns, D):
    if raised:
        D.append(Dev('C07', 'roDelete-raised', {}))
        return
    if pre.root_sig != post.root_sig or pre.envelope != post.envelope:
        D.append(Dev('C07', 'roDelete-changed-envelope', {}))
    if post.rc is None or canon(pre.rc) != canon(post.rc):
        D.append(Dev('C07', 'roDelete-changed-content', {}))
    if not post.completed:
        D.append(Dev('C07', 'roDelete-did-not-complete', {}))
    elif len(post.metas) == 1:
        kids = list(post.metas[0])
        if len(kids) != 1 or canon(kids[0]) != canon(m.el):
            D.append(Dev('C07', 'completion-record-differs-from-sent-roDelete',
                         {'n_children': len(kids)}))
    if mos_warns:
        D.append(Dev('C06', 'warning-on-fully-applied', {'warns': dict(mos_warns)}))
