#!/bin/sh
# tools/try_patch.sh <patch.diff> [Cxx ...]   (default: all 20 properties; TIER=quick|thorough)
# Validate the monitors against a property-breaking change WITHOUT touching /repo:
# a scratch copy of /repo's HEAD gets the patch, the repository's own tests must
# still pass there, then the checks run with VERIF_REPO pointing at the copy and
# evidence redirected to a scratch directory.  Everything is removed afterwards.
set -u
PATCH=$(realpath "$1"); shift
PROPS=${*:-C01 C02 C03 C04 C05 C06 C07 C08 C09 C10 C11 C12 C13 C14 C15 C16 C17 C18 C19 C20}
TIER=${TIER:-quick}
W=$(mktemp -d /tmp/mut-XXXXXX)
trap 'rm -rf "$W"' EXIT
mkdir -p "$W/repo" "$W/ev"
git -C /repo archive HEAD | tar -x -C "$W/repo"
( cd "$W/repo" && git init -q . >/dev/null 2>&1; git -C "$W/repo" apply "$PATCH" ) || { echo "PATCH-DOES-NOT-APPLY"; exit 3; }
T=$(cd "$W/repo" && /venv/bin/python -B -m pytest -q -p no:cacheprovider 2>&1 | tail -1)
echo "repo tests with patch: $T"
cd /verif
for p in $PROPS; do
  OUT=$(VERIF_REPO="$W/repo" VERIF_EVIDENCE_DIR="$W/ev" ./check "$p" --tier "$TIER" 2>&1)
  rc=$?
  n=$(printf '%s\n' "$OUT" | grep -c '^VIOLATION')
  echo "$p rc=$rc violations_lines=$n :: $(printf '%s\n' "$OUT" | tail -1 | cut -c1-160)"
  if [ "${SHOW:-0}" = 1 ] && [ $rc -ne 0 ]; then printf '%s\n' "$OUT" | grep '^  #' | head -5 | cut -c1-400; fi
done
