#!/bin/sh
# tools/run_reverts.sh -> mutants/reverts/RESULTS.txt
# Every `fix:` commit of /repo that reverts cleanly on HEAD is taken out again (scratch copy only):
# the check of each property the defect violated must report it.
cd /verif
OUT=mutants/reverts/RESULTS.txt
: > "$OUT.tmp"
while read c id props; do
  R=$(TIER=${TIER:-quick} tools/try_patch.sh mutants/reverts/revert_$c.patch $props 2>&1)
  T=$(printf '%s\n' "$R" | grep '^repo tests' | sed 's/repo tests with patch: //')
  for p in $props; do
    rc=$(printf '%s\n' "$R" | grep "^$p rc=" | sed 's/.*rc=\([0-9]*\).*/\1/')
    case "$rc" in 1) V=CAUGHT;; 0) V=MISSED;; 2) V=INCONCLUSIVE;; *) V="?($rc)";; esac
    echo "revert of $c ($id) | $p | $T | $V" | tee -a "$OUT.tmp"
  done
done < mutants/reverts/INDEX.txt
mv "$OUT.tmp" "$OUT"
