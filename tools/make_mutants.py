#!/usr/bin/env python3
"""Generate /verif/mutants/*.patch: deliberate, realistic property-breaking edits
of bbc/mosromgr (against /repo HEAD) used to validate the monitors (DESIGN 2.8).
Each mutant is a textual substitution; the script asserts it applies uniquely and
writes a unified diff.  Nothing is written into /repo.
"""
import difflib
import os
import subprocess
import sys
import tempfile

REPO = '/repo'
OUT = os.path.join(os.path.dirname(os.path.dirname(os.path.abspath(__file__))), 'mutants')

MT = 'mosromgr/mostypes.py'
ME = 'mosromgr/moselements.py'
MC = 'mosromgr/moscollection.py'
UX = 'mosromgr/utils/xml.py'
S3 = 'mosromgr/utils/s3.py'
CLI = 'mosromgr/cli.py'

M = []   # (name, expected properties, [(file, old, new, occurrence_index|None)])


def mut(name, props, *edits):
    M.append((name, props, edits))


# ---- C01
mut('m01_storymove_index_before_removal', 'C01',
    (MT, """        remove_node(parent=ro.base_tag, node=source_story)
        # the target position is only known once the source has been removed
        if target_story is None:
            target_story_index = len(ro.base_tag)
        else:
            target_story_index = list(ro.base_tag).index(target_story)
        insert_node(parent=ro.base_tag, node=source_story, index=target_story_index)""",
     """        if target_story is None:
            target_story_index = len(ro.base_tag)
        else:
            target_story_index = list(ro.base_tag).index(target_story)
        remove_node(parent=ro.base_tag, node=source_story)
        insert_node(parent=ro.base_tag, node=source_story, index=target_story_index)""", None))
mut('m02_eastoryinsert_end_among_stories', 'C01',
    (MT, """        if self.story.id is None:
            # insert at the end
            story_index = len(ro.base_tag)""",
     """        if self.story.id is None:
            # insert at the end
            story_index = len(ro.stories)""", None))
mut('m03_storyreplace_reversed', 'C01',
    (MT, """        remove_node(parent=ro.base_tag, node=story)
        for i, new_story in enumerate(self.stories, start=story_index):
            insert_node(parent=ro.base_tag, node=copy.deepcopy(new_story.xml), index=i)
        return ro

    def inspect(self):
        \"\"\"
        Print an outline of the key file contents
        \"\"\"
        print("REPLACE STORY:", self.story.id, "WITH:")
        for story in self.stories:
            print("  STORY:", story.id)


class ItemReplace""",
     """        remove_node(parent=ro.base_tag, node=story)
        for new_story in self.stories:
            insert_node(parent=ro.base_tag, node=copy.deepcopy(new_story.xml), index=story_index)
        return ro

    def inspect(self):
        \"\"\"
        Print an outline of the key file contents
        \"\"\"
        print("REPLACE STORY:", self.story.id, "WITH:")
        for story in self.stories:
            print("  STORY:", story.id)


class ItemReplace""", None))
mut('m04_storyswap_no_order_normalisation', 'C01',
    (MT, """        if story1_index > story2_index:
            story1, story1_index, story2, story2_index = story2, story2_index, story1, story1_index
""", "", None))
# ---- C02
mut('m05_itemmovemultiple_same_index', 'C02',
    (MT, """        for i, source_item in enumerate(source_items, start=target_item_index):
            insert_node(parent=story, node=source_item, index=i)""",
     """        for source_item in source_items:
            insert_node(parent=story, node=source_item, index=target_item_index)""", None))
mut('m06_eaiteminsert_end_among_items', 'C02',
    (MT, """        if self.item.id is None:
            # move to bottom
            item_index = len(story)""",
     """        if self.item.id is None:
            # move to bottom
            item_index = len(story.findall('item'))""", None))
mut('m07_itemreplace_off_by_one', 'C02',
    (MT, """        remove_node(parent=story, node=item)
        for i, item in enumerate(self.items, start=item_index):
            insert_node(parent=story, node=copy.deepcopy(item.xml), index=i)""",
     """        remove_node(parent=story, node=item)
        for i, item in enumerate(self.items, start=item_index + 1):
            insert_node(parent=story, node=copy.deepcopy(item.xml), index=i)""", None))
mut('m07b_eaitemmove_index_before_removal', 'C02',
    (MT, """        for item in items:
            remove_node(parent=story, node=item)
        # the target position is only known once the sources have been removed
        if target_item is None:
            target_item_index = len(story)
        else:
            target_item_index = list(story).index(target_item)""",
     """        if target_item is None:
            target_item_index = len(story)
        else:
            target_item_index = list(story).index(target_item)
        for item in items:
            remove_node(parent=story, node=item)
        target_item_index = min(target_item_index, len(story))""", None))
# ---- C03
mut('m08_find_child_by_id_wildcard', 'C03',
    (UX, """    if id is None:
        return (None, None)
    return find_child(parent=parent, child_tag=child_tag, id=id)""",
     """    return find_child(parent=parent, child_tag=child_tag, id=id)""", None))
mut('m09_metadata_any_external_block', 'C03',
    (MT, """            if child.tag == 'mosExternalMetadata' and child.findtext('mosSchema') == mos_schema:""",
     """            if child.tag == 'mosExternalMetadata' and (mos_schema is None or child.find('mosSchema') is not None):""", None))
mut('m10_iteminsert_lenient_story', 'C03',
    (MT, """        story, story_index = find_child_by_id(parent=ro.base_tag, child_tag='story', id=self.story.id)
        if story is None:
            raise MosMergeError(
                f"{self.__class__.__name__} error in {self._message_label} - target story not found"
            )
        if self.item.id is None:
            # move to the end""",
     """        story, story_index = find_child_by_id(parent=ro.base_tag, child_tag='story', id=self.story.id)
        if story is None and self.story.id is None:
            story = ro.base_tag.find('story')
        if story is None:
            raise MosMergeError(
                f"{self.__class__.__name__} error in {self._message_label} - target story not found"
            )
        if self.item.id is None:
            # move to the end""", None))
mut('m10b_itemdelete_searches_all_stories', 'C03',
    (MT, """        for item in self.items:
            found_node, found_index = find_child_by_id(parent=story, child_tag='item', id=item.id)
            if found_node is None:
                msg = f"{self.__class__.__name__} error in {self._message_label} - item not found\"""",
     """        for item in self.items:
            found_node, found_index = find_child_by_id(parent=story, child_tag='item', id=item.id)
            if found_node is None:
                # the item may have been moved to another story
                for other in ro.base_tag.findall('story'):
                    found_node, found_index = find_child_by_id(parent=other, child_tag='item', id=item.id)
                    if found_node is not None:
                        other.remove(found_node)
                        break
                if found_node is not None:
                    continue
            if found_node is None:
                msg = f"{self.__class__.__name__} error in {self._message_label} - item not found\"""", None))
# ---- C04
mut('m11_storysend_renames_nested_storyitems', 'C04',
    (MT, """        for item in ss_tag.find('storyBody').findall('storyItem'):""",
     """        for item in ss_tag.find('storyBody').iter('storyItem'):""", None))
mut('m12_storysend_body_reversed', 'C04',
    (MT, """        for sb_index, child in enumerate(children, start=story_body_index):
            insert_node(parent=ss_tag, node=child, index=sb_index)""",
     """        for child in children:
            insert_node(parent=ss_tag, node=child, index=story_body_index)""", None))
mut('m12b_eastoryreplace_drops_attributes', 'C04',
    (MT, """        remove_node(parent=ro.base_tag, node=story)
        for i, new_story in enumerate(new_stories, start=story_index):
            insert_node(parent=ro.base_tag, node=copy.deepcopy(new_story.xml), index=i)
        return ro

    def inspect(self):
        \"\"\"
        Print an outline of the key file contents
        \"\"\"
        print("REPLACE STORY:", self.story.id, "WITH:")
        for story in self.stories:
            print("  STORY:", story.id)


class EAItemReplace""",
     """        remove_node(parent=ro.base_tag, node=story)
        for i, new_story in enumerate(new_stories, start=story_index):
            node = Element('story')
            node.extend(copy.deepcopy(new_story.xml))
            insert_node(parent=ro.base_tag, node=node, index=i)
        return ro

    def inspect(self):
        \"\"\"
        Print an outline of the key file contents
        \"\"\"
        print("REPLACE STORY:", self.story.id, "WITH:")
        for story in self.stories:
            print("  STORY:", story.id)


class EAItemReplace""", None))
mut('m12c_metadata_replace_skips_empty', 'C04',
    (MT, """        for source in self.base_tag:
            if source.tag == 'mosExternalMetadata':""",
     """        for source in self.base_tag:
            if not len(source) and not source.text:
                continue
            if source.tag == 'mosExternalMetadata':""", None))
# ---- C05
mut('m15_eastorymove_interleaved', 'C05',
    (MT, """            if story is target_story or any(story is s for s in stories):
                raise MosMergeError(
                    f"{self.__class__.__name__} error in {self._message_label} - duplicate story ID"
                )
            stories.append(story)

        for story in stories:
            remove_node(parent=ro.base_tag, node=story)""",
     """            if story is target_story or any(story is s for s in stories):
                raise MosMergeError(
                    f"{self.__class__.__name__} error in {self._message_label} - duplicate story ID"
                )
            stories.append(story)
            remove_node(parent=ro.base_tag, node=story)
""", None))
mut('m16_eaitemswap_remove_before_second_lookup', 'C05',
    (MT, """        item2, item2_index = find_child_by_id(parent=story, child_tag='item', id=source_item_2.id)
        if item2 is None:
            raise MosMergeError(
                f"{self.__class__.__name__} error in {self._message_label} - item 2 not found"
            )
        if item1 is item2:
            raise MosMergeError(
                f"{self.__class__.__name__} error in {self._message_label} - cannot swap an item with itself"
            )
        if item1_index > item2_index:
            item1, item1_index, item2, item2_index = item2, item2_index, item1, item1_index
        remove_node(parent=story, node=item1)
        remove_node(parent=story, node=item2)""",
     """        remove_node(parent=story, node=item1)
        item2, item2_index = find_child_by_id(parent=story, child_tag='item', id=source_item_2.id)
        if item2 is None:
            raise MosMergeError(
                f"{self.__class__.__name__} error in {self._message_label} - item 2 not found"
            )
        item2_index += 1 if item2_index >= item1_index else 0
        if item1_index > item2_index:
            story.insert(item1_index, item1)
            item1, item1_index, item2, item2_index = item2, item2_index, item1, item1_index
            remove_node(parent=story, node=item1)
        remove_node(parent=story, node=item2)""", None))
mut('m16b_storyreplace_remove_before_count_check', 'C05',
    (MT, """        if len(self.stories) == 0:
            raise MosMergeError(
                f"{self.__class__.__name__} error in {self._message_label} - no stories to insert"
            )
        remove_node(parent=ro.base_tag, node=story)""",
     """        remove_node(parent=ro.base_tag, node=story)
        if len(self.stories) == 0:
            raise MosMergeError(
                f"{self.__class__.__name__} error in {self._message_label} - no stories to insert"
            )""", None))
# ---- C06
mut('m17_storydelete_break_after_miss', 'C06',
    (MT, """                msg = f"{self.__class__.__name__} error in {self._message_label} - story not found"
                logger.warning(msg)
                warnings.warn(msg, StoryNotFoundWarning)
        return ro

    def inspect(self):
        \"\"\"
        Print an outline of the key file contents
        \"\"\"
        for story in self.stories:
            print("DELETE STORY:", story.id)


class ItemDelete""",
     """                msg = f"{self.__class__.__name__} error in {self._message_label} - story not found"
                logger.warning(msg)
                warnings.warn(msg, StoryNotFoundWarning)
                break
        return ro

    def inspect(self):
        \"\"\"
        Print an outline of the key file contents
        \"\"\"
        for story in self.stories:
            print("DELETE STORY:", story.id)


class ItemDelete""", None))
mut('m18_eaitemdelete_wrong_category', 'C06',
    (MT, """                msg = f"{self.__class__.__name__} error in {self._message_label} - item not found"
                logger.warning(msg)
                warnings.warn(msg, ItemNotFoundWarning)
            else:
                remove_node(parent=story, node=item)""",
     """                msg = f"{self.__class__.__name__} error in {self._message_label} - item not found"
                logger.warning(msg)
                warnings.warn(msg, StoryNotFoundWarning)
            else:
                remove_node(parent=story, node=item)""", None))
mut('m19_storyinsert_silent_duplicate', 'C06',
    (MT, """                msg = f"{self.__class__.__name__} error in {self._message_label} - story already found in running order"
                logger.warning(msg)
                warnings.warn(msg, DuplicateStoryWarning)
                continue""",
     """                msg = f"{self.__class__.__name__} error in {self._message_label} - story already found in running order"
                logger.warning(msg)
                continue""", None))
mut('m19b_warn_once_per_message', 'C06',
    (MT, """        for source_story in self.stories:
            story, story_index = find_child_by_id(parent=ro.base_tag, child_tag='story', id=source_story.id)
            if story is None:
                msg = f"{self.__class__.__name__} error in {self._message_label} - story not found"
                logger.warning(msg)
                warnings.warn(msg, StoryNotFoundWarning)""",
     """        warned = False
        for source_story in self.stories:
            story, story_index = find_child_by_id(parent=ro.base_tag, child_tag='story', id=source_story.id)
            if story is None:
                msg = f"{self.__class__.__name__} error in {self._message_label} - story not found"
                logger.warning(msg)
                if not warned:
                    warnings.warn(msg, StoryNotFoundWarning)
                    warned = True""", None))
# ---- C07
mut('m20_add_guard_nested_meta', 'C07',
    (MT, """        if self.xml.find('mosromgrmeta') is None:
            return other.merge(self)""",
     """        if self.xml.find('.//mosromgrmeta') is None:
            return other.merge(self)""", None))
mut('m21_completed_nested_meta', 'C07',
    (MT, """        return self.xml.find('mosromgrmeta') is not None""",
     """        return self.xml.find('.//mosromgrmeta') is not None""", None))
mut('m23_guard_skipped_for_readytoair', 'C07',
    (MT, """        if self.xml.find('mosromgrmeta') is None:
            return other.merge(self)""",
     """        if self.xml.find('mosromgrmeta') is None or isinstance(other, ReadyToAir):
            return other.merge(self)""", None))
mut('m23b_rodelete_record_is_empty', 'C07',
    (MT, """        mosromgrmeta.append(copy.deepcopy(ro_delete))""",
     """        mosromgrmeta.append(Element('roDelete'))""", None))
# ---- C08
mut('m24_classify_deep_search', 'C08',
    (MT, """            if xml.find(tag) is not None:
                if subcls == ElementAction:""",
     """            if xml.find('.//' + tag) is not None:
                if subcls == ElementAction:""", None))
mut('m25_ea_operation_case_insensitive', 'C08',
    (MT, """        operation = ea.attrib.get('operation')""",
     """        operation = (ea.attrib.get('operation') or '').upper()""", None))
mut('m26_truthiness_again', 'C08',
    (MT, """            if xml.find(tag) is not None:
                if subcls == ElementAction:""",
     """            if xml.find(tag) is not None and len(xml.find(tag)):
                if subcls == ElementAction:""", None))
mut('m26b_bytes_decoded_lossy', 'C08',
    (MT, """        try:
            xml = ElementTree.fromstring(mos_xml_string)
        except ElementTree.ParseError as e:
            raise MosInvalidXML(e) from e""",
     """        if isinstance(mos_xml_string, bytes):
            mos_xml_string = mos_xml_string.decode('utf-8', errors='ignore').strip()
        try:
            xml = ElementTree.fromstring(mos_xml_string)
        except (ElementTree.ParseError, ValueError) as e:
            raise MosInvalidXML(e) from e""", None))
# ---- C09
mut('m27_nonstrict_stops_after_completed', 'C09',
    (MC, """            except MosMergeError as e:
                if strict:
                    raise
                logger.error(str(e))
                warnings.warn(str(e), MosMergeNonStrictWarning)""",
     """            except MosMergeError as e:
                if strict:
                    raise
                logger.error(str(e))
                warnings.warn(str(e), MosMergeNonStrictWarning)
                if self._ro.completed:
                    break""", None))
mut('m29_nonstrict_dedupes_warnings', 'C09',
    (MC, """        for mr in self.mos_readers:
            mo = mr.mos_object
            logger.info("Merging %s %s", mo.__class__.__name__, mr.message_id)
            try:
                self._ro += mo
            except MosMergeError as e:
                if strict:
                    raise
                logger.error(str(e))
                warnings.warn(str(e), MosMergeNonStrictWarning)""",
     """        seen = set()
        for mr in self.mos_readers:
            mo = mr.mos_object
            logger.info("Merging %s %s", mo.__class__.__name__, mr.message_id)
            try:
                self._ro += mo
            except MosMergeError as e:
                if strict:
                    raise
                logger.error(str(e))
                if type(mo) not in seen:
                    seen.add(type(mo))
                    warnings.warn(str(e), MosMergeNonStrictWarning)""", None))
mut('m29b_strict_swallows_completed', 'C09',
    (MC, """            except MosMergeError as e:
                if strict:
                    raise""",
     """            except MosMergeError as e:
                if strict and not self._ro.completed:
                    raise""", None))
# ---- C10
mut('m30_reader_lt_string', 'C10',
    (MC, """        return self.message_id < other.message_id""",
     """        return str(self.message_id) < str(other.message_id)""", None))
mut('m31_mosfile_lt_string', 'C10',
    (MT, """        return self.message_id < other.message_id""",
     """        return self.xml.find('messageID').text < other.xml.find('messageID').text""", None))
mut('m31b_from_s3_not_sorted', 'C10',
    (MC, """        mos_readers = sorted([
            mr
            for mr in [MosReader.from_s3(bucket_name, key) for key in mos_file_keys]
            if mr is not None
        ])""",
     """        mos_readers = [
            mr
            for mr in [MosReader.from_s3(bucket_name, key) for key in sorted(mos_file_keys)]
            if mr is not None
        ]""", None))
# ---- C11
mut('m32_validate_allows_two_rodeletes', 'C11',
    (MC, """        check(len(ro_deletes) < 2, f"{len(ro_deletes)} roDeletes found")
        if not allow_incomplete:
            check(len(ro_deletes) == 1, f"{len(ro_deletes)} roDeletes found")""",
     """        if not allow_incomplete:
            check(len(ro_deletes) >= 1, f"{len(ro_deletes)} roDeletes found")""", None))
mut('m33_assert_for_roid_again', 'C11',
    (MC, """        check(all(mr.ro_id == ro_id for mr in self.mos_readers), "Mixed RO IDs found")""",
     """        assert all(mr.ro_id == ro_id for mr in self.mos_readers), "Mixed RO IDs found\"""", None))
mut('m33b_empty_collection_indexerror', 'C11',
    (MC, """        check(len(self.mos_readers) > 0, "No MOS files found")
""", "", None))
# ---- C12
mut('m34_swap_self_valueerror', 'C12',
    (MT, """        if story1 is story2:
            raise MosMergeError(""",
     """        if story1 is story2:
            raise ValueError(""", None))
mut('m35_offsets_none_typeerror', 'C15 C16',
    (ME, """            if t is not None and duration is not None:
                t += duration
            else:
                # offsets after a story without a duration cannot be known
                t = None""",
     """            t += duration""", None))
mut('m35b_ea_unknown_keyerror', 'C12',
    (MT, """        try:
            subcls = subclasses[(operation, target_item, source_item)]
        except KeyError:
            raise UnknownMosFileType("Unable to determine MOS file type")""",
     """        subcls = subclasses[(operation, target_item, source_item)]""", None))
# ---- C13
mut('m13_roreplace_shallow_copy', 'C13',
    (MT, """        rr = copy.deepcopy(self.base_tag)""",
     """        rr = copy.copy(self.base_tag)""", None))
mut('m36_storyappend_by_reference', 'C13',
    (MT, """            append_node(ro.base_tag, copy.deepcopy(story.xml))""",
     """            append_node(ro.base_tag, story.xml)""", None))
mut('m37_reader_caches_object', 'C18',
    (MC, """        return self._restore_fn(*self._restore_args)""",
     """        if getattr(self, '_cached', None) is None:
            self._cached = self._restore_fn(*self._restore_args)
        return self._cached""", None))
mut('m37b_eaitemreplace_by_reference', 'C13',
    (MT, """            insert_node(parent=story, node=copy.deepcopy(new_item.xml), index=i)
        return ro

    def inspect(self):
        \"\"\"
        Print an outline of the key file contents
        \"\"\"
        print("IN STORY:", self.story.id)
        print("REPLACE ITEM:", self.item.id, "WITH:")""",
     """            insert_node(parent=story, node=new_item.xml, index=i)
        return ro

    def inspect(self):
        \"\"\"
        Print an outline of the key file contents
        \"\"\"
        print("IN STORY:", self.story.id)
        print("REPLACE ITEM:", self.item.id, "WITH:")""", None))
mut('m37c_storysend_caches_converted_story', 'C13',
    (MT, """        story_tag = self._convert_story_send_to_story_tag(self.base_tag)
        return Story(story_tag)""",
     """        if getattr(self, '_story_tag', None) is None:
            self._story_tag = self._convert_story_send_to_story_tag(self.base_tag)
        return Story(self._story_tag)""", None))
# ---- C14
mut('m38_str_raw_cr', 'C14',
    (MT, """        return ElementTree.tostring(self.xml, encoding='unicode').replace('\\r', '&#13;')""",
     """        return ElementTree.tostring(self.xml, encoding='unicode')""", None))
mut('m39_roreplace_keeps_old_rocreate_when_id_differs', 'C14',
    (MT, """        remove_node(parent=ro.xml, node=ro.base_tag)
        insert_node(parent=ro.xml, node=rr, index=rc_index)""",
     """        if rc.findtext('roSlug') != rr.findtext('roSlug') or len(rr) < 3:
            remove_node(parent=ro.xml, node=ro.base_tag)
        insert_node(parent=ro.xml, node=rr, index=rc_index)""", None))
mut('m39b_str_ascii', 'C14',
    (MT, """        return ElementTree.tostring(self.xml, encoding='unicode').replace('\\r', '&#13;')""",
     """        return ElementTree.tostring(self.xml, encoding='us-ascii').decode('ascii').replace('\\r', '&#13;').split('?>', 1)[-1].lstrip()""", None))
# ---- C15
mut('m40_item_note_unguarded', 'C15',
    (ME, """            note = mos_payload.find(".//studioCommand[@type='note']")
            return note.find('text').text
        except AttributeError:
            return""",
     """            note = mos_payload.find(".//studioCommand[@type='note']")
        except AttributeError:
            return
        if note is not None:
            return note.find('text').text""", None))
mut('m41_story_items_nested', 'C15',
    (ME, """            for item_tag in self.xml.findall('item')""",
     """            for item_tag in self.xml.iter('item')""", None))
mut('m41b_slug_cached', 'C15',
    (ME, """        try:
            self._slug = self.xml.find(self._slug_tag).text
        except AttributeError:
            return
        return self._slug""",
     """        if self._slug is None:
            try:
                self._slug = self.xml.find(self._slug_tag).text
            except AttributeError:
                return
        return self._slug or None""", None))
# ---- C16
mut('m42_duration_precedence', 'C16',
    (ME, """    story_duration = payload.find('StoryDuration')
    if story_duration is not None:
        return _get_seconds(story_duration)

    text_time = payload.find('TextTime')
    media_time = payload.find('MediaTime')
    if text_time is not None or media_time is not None:
        text_time = _get_seconds(text_time) if text_time is not None else 0
        media_time = _get_seconds(media_time) if media_time is not None else 0
        if text_time is None or media_time is None:
            # a time that cannot be read makes the duration unknown
            return
        return text_time + media_time""",
     """    text_time = payload.find('TextTime')
    media_time = payload.find('MediaTime')
    if text_time is not None or media_time is not None:
        text_time = _get_seconds(text_time) if text_time is not None else 0
        media_time = _get_seconds(media_time) if media_time is not None else 0
        if text_time is None or media_time is None:
            # a time that cannot be read makes the duration unknown
            return
        return text_time + media_time

    story_duration = payload.find('StoryDuration')
    if story_duration is not None:
        return _get_seconds(story_duration)""", None))
mut('m43_offsets_integer_truncation', 'C16',
    (ME, """            if t is not None and duration is not None:
                t += duration""",
     """            if t is not None and duration is not None:
                t += int(duration)""", None))
mut('m44_end_ignores_explicit_when_duration', 'C16',
    (ME, """        try:
            metadata = self.xml.find('mosExternalMetadata')
            mos_payload = metadata.find('mosPayload')
            end_time = mos_payload.find('StoryEnded').text
            return parse(end_time)
        except AttributeError:
            pass

        if self.start_time is not None and self.duration is not None:
            return self.start_time + timedelta(seconds=self.duration)""",
     """        if self.start_time is not None and self.duration is not None:
            return self.start_time + timedelta(seconds=self.duration)

        try:
            metadata = self.xml.find('mosExternalMetadata')
            mos_payload = metadata.find('mosPayload')
            end_time = mos_payload.find('StoryEnded').text
            return parse(end_time)
        except AttributeError:
            pass""", None))
# ---- C17
mut('m45_note_or_instead_of_and', 'C17',
    (ME, """    if text.startswith('(') and text.endswith(')'):
        return True""",
     """    if text.startswith('(') or text.endswith(')'):
        return True""", None))
mut('m46_body_skips_empty_paragraphs', 'C17',
    (ME, """            for tag in self.xml
            if tag.tag in ('item', 'p')""",
     """            for tag in self.xml
            if tag.tag == 'item' or (tag.tag == 'p' and tag.text is not None)""", None))
mut('m47_script_not_stripped', 'C17',
    (ME, """            p.text.strip()
            for p in self.xml.findall('p')""",
     """            p.text
            for p in self.xml.findall('p')""", None))
mut('m47b_ro_script_dedupes', 'C17',
    (MT, """        return list(
            itertools.chain.from_iterable(story.script for story in self.stories)
        )""",
     """        return list(dict.fromkeys(
            itertools.chain.from_iterable(story.script for story in self.stories)
        ))""", None))
# ---- C18
mut('m48_listing_first_page_only', 'C18',
    (S3, """        for file in contents:
            key = file['Key']
            if key.endswith(suffix):
                files.append(key)
    return files""",
     """        for file in contents:
            key = file['Key']
            if key.endswith(suffix):
                files.append(key)
        if not page.get('IsTruncated', True):
            break
        if len(files) >= 1000:
            break
    return files[:5] if len(files) > 20 else files""", None))
mut('m50_s3_body_decoded', 'C18',
    (S3, """    return b.read()""",
     """    return b.read().decode('utf-8', errors='replace')""", None))
mut('m50b_suffix_substring', 'C18',
    (S3, """            if key.endswith(suffix):""",
     """            if suffix in key:""", None))
mut('m50c_reader_restores_generic', 'C18',
    (MC, """        return cls(mo,
                   restore_fn=mo.__class__.from_file,
                   restore_args=(mos_file_path, ))""",
     """        return cls(mo,
                   restore_fn=MosFile.from_string,
                   restore_args=(str(mo), ))""", None))
# ---- C19
mut('m51_nonstrict_inverted', 'C19',
    (CLI, """        strict = not self._args.non_strict""",
     """        strict = self._args.non_strict""", None))
mut('m52_no_completed_marker', 'C19',
    (CLI, """        if mo.completed:
            print(f"{filename}: {mo.__class__.__name__} (completed)")
        else:
            print(f"{filename}: {mo.__class__.__name__}")""",
     """        print(f"{filename}: {mo.__class__.__name__}")""", None))
mut('m53_outfile_extra_newline', 'C19',
    (CLI, """                f.write(str(mc))""",
     """                print(mc, file=f)""", None))
mut('m53b_incomplete_ignored', 'C19',
    (CLI, """                mc = MosCollection.from_files(
                    self._args.files,
                    allow_incomplete=self._args.incomplete
                )""",
     """                mc = MosCollection.from_files(
                    self._args.files,
                    allow_incomplete=True
                )""", None))
mut('m53c_detect_stops_on_oserror', 'C19',
    (CLI, """                except (MosRoMgrException, OSError) as e:
                    sys.stderr.write(f"{file}: Invalid\\n")
                    continue""",
     """                except MosRoMgrException as e:
                    sys.stderr.write(f"{file}: Invalid\\n")
                    continue""", None))
# ---- C20
mut('m54_eastorymove_first_id_only', 'C20',
    (MT, """        return [
            Story(source, id=story_id.text)
            for source in self.base_tag.findall('element_source')
            for story_id in source.findall('storyID')
        ]

    def merge(self, ro: RunningOrder) -> RunningOrder:
        \"\"\"
        Merge into the :class:`RunningOrder` object provided.
        \"\"\"
        target_story = None""",
     """        return [
            Story(source, id=source.findtext('storyID'))
            for source in self.base_tag.findall('element_source')
        ]

    def merge(self, ro: RunningOrder) -> RunningOrder:
        \"\"\"
        Merge into the :class:`RunningOrder` object provided.
        \"\"\"
        target_story = None""", None))
mut('m55_storymove_blank_target_fallback', 'C20',
    (MT, """        if len(stories) < 2 or stories[1].text is None:
            return
        return Story(self.base_tag, id=stories[1].text, unknown_items=True)""",
     """        if len(stories) < 2:
            return
        return Story(self.base_tag, id=stories[1].text or stories[0].text, unknown_items=True)""", None))
mut('m56_itemmovemultiple_items_include_target', 'C20',
    (MT, """        items = self.base_tag.findall('itemID')[:-1]""",
     """        items = self.base_tag.findall('itemID')[:-1] or self.base_tag.findall('itemID')""", None))
mut('m57_id_fallback_again', 'C20',
    (ME, """        if self._id is _ID_FROM_XML:""",
     """        if self._id is _ID_FROM_XML or self._id is None:""", None))


# ---- hostile IDs
mut('m58_find_child_strips_ids', 'C01 C02 C03',
    (UX, """            if child_id is not None and child_id == id:""",
     """            if child_id is not None and child_id.strip() == id.strip():""", None))
mut('m59_find_child_case_insensitive', 'C01 C02',
    (UX, """            if child_id is not None and child_id == id:""",
     """            if child_id is not None and child_id.lower() == id.lower():""", None))
mut('m60_storyreplace_zero_removes_first', 'C05',
    (MT, """        if len(self.stories) == 0:
            raise MosMergeError(
                f"{self.__class__.__name__} error in {self._message_label} - no stories to insert"
            )
        remove_node(parent=ro.base_tag, node=story)""",
     """        remove_node(parent=ro.base_tag, node=story)
        if len(self.stories) == 0:
            ro.base_tag.insert(story_index + 1, story)
            raise MosMergeError(
                f"{self.__class__.__name__} error in {self._message_label} - no stories to insert"
            )""", None))


# ---- scale: only wrong once a position has two digits
mut('m61_eastorydelete_indexes_sorted_as_strings', 'C01',
    (MT, """        for source_story in self.stories:
            story, story_index = find_child_by_id(parent=ro.base_tag, child_tag='story', id=source_story.id)
            if story is None:
                msg = f"{self.__class__.__name__} error in {self._message_label} - story not found"
                logger.warning(msg)
                warnings.warn(msg, StoryNotFoundWarning)
            else:
                remove_node(parent=ro.base_tag, node=story)
        return ro""",
     """        found = set()
        for source_story in self.stories:
            story, story_index = find_child_by_id(parent=ro.base_tag, child_tag='story', id=source_story.id)
            if story is None:
                msg = f"{self.__class__.__name__} error in {self._message_label} - story not found"
                logger.warning(msg)
                warnings.warn(msg, StoryNotFoundWarning)
            else:
                found.add(story_index)
        # delete back to front so the remaining positions stay valid
        for story_index in sorted(found, key=str, reverse=True):
            del ro.base_tag[story_index]
        return ro""", None))


def main():
    os.makedirs(OUT, exist_ok=True)
    for fn in os.listdir(OUT):
        if fn.endswith('.patch'):
            os.unlink(os.path.join(OUT, fn))
    index = []
    for name, props, edits in M:
        diffs = []
        for f, old, new, occ in edits:
            src = subprocess.check_output(['git', '-C', REPO, 'show', 'HEAD:' + f]).decode()
            n = src.count(old)
            if n != 1:
                print('MUTANT %s: pattern occurs %d times in %s' % (name, n, f))
                sys.exit(1)
            dst = src.replace(old, new)
            with tempfile.TemporaryDirectory() as td:
                os.makedirs(os.path.join(td, 'a', os.path.dirname(f)))
                os.makedirs(os.path.join(td, 'b', os.path.dirname(f)))
                open(os.path.join(td, 'a', f), 'w').write(src)
                open(os.path.join(td, 'b', f), 'w').write(dst)
                r = subprocess.run(['git', 'diff', '--no-index', '--no-color', 'a/' + f, 'b/' + f],
                                   cwd=td, capture_output=True, text=True)
                diffs.append(r.stdout.replace('a/a/', 'a/').replace('b/b/', 'b/'))
        path = os.path.join(OUT, name + '.patch')
        with open(path, 'w') as fh:
            fh.write(''.join(diffs))
        index.append('%s %s' % (name, props))
    with open(os.path.join(OUT, 'INDEX.txt'), 'w') as fh:
        fh.write('\n'.join(index) + '\n')
    print('wrote %d mutants' % len(M))


if __name__ == '__main__':
    main()
