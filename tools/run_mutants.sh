#!/bin/sh
# tools/run_mutants.sh [pattern]  -> mutants/RESULTS.txt  (mutant, target property, repo tests, verdict)
cd /verif
OUT=mutants/RESULTS.txt
: > "$OUT.tmp"
while read name props; do
  case "$name" in *${1:-}*) ;; *) continue;; esac
  R=$(TIER=${TIER:-quick} tools/try_patch.sh mutants/$name.patch $props 2>&1)
  T=$(printf '%s\n' "$R" | grep '^repo tests' | sed 's/repo tests with patch: //')
  for p in $props; do
    L=$(printf '%s\n' "$R" | grep "^$p rc=")
    rc=$(printf '%s' "$L" | sed 's/.*rc=\([0-9]*\).*/\1/')
    case "$rc" in 1) V=CAUGHT;; 0) V=MISSED;; 2) V=INCONCLUSIVE;; *) V="?($rc)";; esac
    echo "$name | $p | $T | $V" | tee -a "$OUT.tmp"
  done
done < mutants/INDEX.txt
mv "$OUT.tmp" "$OUT"
