#!/usr/bin/env python3
"""tools/mutation_sweep.py - systematic first-order mutation analysis of bbc/mosromgr against the checks.

Not a registered check: a validation tool for the machinery (DESIGN 8).  It generates small textual
mutants of /repo's mosromgr/*.py with token-level operators (comparison / boolean / arithmetic swaps,
integer and boolean constants, dropped call statements and raises, break/continue, tag-name swaps),
keeps those that still compile AND pass the repository's own 196 tests, and runs the checks mapped to
the mutated file / function against each survivor (scratch copies only, /repo untouched, evidence
redirected).  Result lines:  <id> | <file>:<line> | <operator> | tests=<passed|failed> | <first check
that reports it | SURVIVED(checks tried)>.

  python3 tools/mutation_sweep.py list                       # print the mutants
  python3 tools/mutation_sweep.py run [--slots 4] [--only REGEX] [--limit N] [--out FILE]

Checks run with VERIF_STOP_ON_FIRST=1 (a worker stops at its first violation), coverage tracing off.
"""
import argparse
import ast
import io
import json
import os
import re
import shutil
import subprocess
import sys
import tempfile
import tokenize
from concurrent.futures import ThreadPoolExecutor

REPO = os.environ.get('VERIF_REPO_SRC', '/repo')
HERE = os.path.dirname(os.path.dirname(os.path.abspath(__file__)))
FILES = ['mosromgr/mostypes.py', 'mosromgr/moselements.py', 'mosromgr/moscollection.py',
         'mosromgr/utils/xml.py', 'mosromgr/utils/s3.py', 'mosromgr/cli.py']

ALL = ['C%02d' % i for i in range(1, 21)]
BY_FILE = {
    'mosromgr/cli.py': ['C19', 'C11', 'C07'],
    'mosromgr/utils/s3.py': ['C18', 'C19', 'C10', 'C09'],
    'mosromgr/moscollection.py': ['C09', 'C11', 'C10', 'C18', 'C07', 'C13', 'C12', 'C19', 'C05', 'C06'],
    'mosromgr/utils/xml.py': ['C01', 'C02', 'C03', 'C05', 'C06', 'C04', 'C12', 'C14', 'C07'],
    'mosromgr/moselements.py': ['C15', 'C16', 'C17', 'C20', 'C12', 'C01', 'C13', 'C19'],
}


def checks_for(path, func):
    """Checks to try, most likely first."""
    if path != 'mosromgr/mostypes.py':
        return BY_FILE[path]
    f = func or ''
    if 'inspect' in f:
        return ['C20', 'C19']
    if f.startswith(('MosFile.from_', 'MosFile._classify', 'ElementAction._classify', 'MosFile.__init__')):
        return ['C08', 'C18', 'C12', 'C19', 'C11']
    if f.startswith(('MosFile.__lt__', 'MosFile.__eq__', 'MosFile.__gt__', 'MosFile.message_id')):
        return ['C10', 'C09', 'C14', 'C11']
    if f.startswith(('MosFile.__str__', 'MosFile.completed', 'RunningOrder.completed', 'RunningOrderEnd', 'RunningOrder.__add__')):
        return ['C07', 'C14', 'C09', 'C05', 'C13', 'C19']
    if f.startswith('RunningOrder.') and not f.startswith('RunningOrder._find'):
        return ['C15', 'C16', 'C17', 'C12', 'C01', 'C20']
    if '.merge' in f or '_find' in f or '_convert' in f:
        story = any(k in f for k in ('Story', 'RunningOrderReplace', 'MetaData', 'StorySend'))
        first = ['C01', 'C03', 'C04', 'C05', 'C06'] if story else ['C02', 'C03', 'C04', 'C05', 'C06']
        return first + ['C12', 'C13', 'C14', 'C09', 'C07']
    # accessors of message classes
    return ['C20', 'C13', 'C06', 'C01', 'C02', 'C04', 'C12', 'C19']


CMP = {'==': ['!='], '!=': ['=='], '<': ['<=', '>'], '<=': ['<'], '>': ['>=', '<'], '>=': ['>']}
TAGS = {"'storyID'": "'itemID'", "'itemID'": "'storyID'", "'story'": "'item'", "'item'": "'story'",
        "'element_source'": "'element_target'", "'element_target'": "'element_source'",
        "'roCreate'": "'roReplace'", "'mosromgrmeta'": "'roDelete'", "'storyBody'": "'story'",
        "'storyItem'": "'item'", "'mosPayload'": "'mosSchema'", "'StoryDuration'": "'TextTime'",
        "'TextTime'": "'MediaTime'", "'MediaTime'": "'TextTime'", "'StoryStarted'": "'StoryEnded'",
        "'StoryEnded'": "'StoryStarted'", "'roEdStart'": "'roEdDur'", "'messageID'": "'mosID'",
        "'roID'": "'roSlug'", "'roSlug'": "'roID'", "'p'": "'pi'", "'note'": "'cue'"}


def func_spans(tree):
    """[(first_line, last_line, 'Class.func')] and the set of docstring / logger lines to skip."""
    spans, skip = [], set()

    def walk(node, prefix):
        for n in ast.iter_child_nodes(node):
            if isinstance(n, ast.ClassDef):
                walk(n, n.name + '.')
            elif isinstance(n, (ast.FunctionDef, ast.AsyncFunctionDef)):
                spans.append((n.lineno, n.end_lineno, prefix + n.name))
                if n.body and isinstance(n.body[0], ast.Expr) and isinstance(getattr(n.body[0], 'value', None), ast.Constant) \
                        and isinstance(n.body[0].value.value, str):
                    skip.update(range(n.body[0].lineno, n.body[0].end_lineno + 1))
                # argument defaults and annotations
                skip.update(range(n.lineno, n.body[0].lineno))
                walk(n, prefix)
    walk(tree, '')
    for n in ast.walk(tree):
        if isinstance(n, ast.Expr) and isinstance(n.value, ast.Call):
            f = n.value.func
            name = ast.unparse(f)
            if name.startswith(('logger.', 'logging.')):
                skip.update(range(n.lineno, n.end_lineno + 1))
    return spans, skip


def generate():
    """[{id, file, line, op, func, new_text}]"""
    out = []
    for path in FILES:
        src = open(os.path.join(REPO, path), encoding='utf-8').read()
        tree = ast.parse(src)
        spans, skip = func_spans(tree)

        def func_at(line):
            best = None
            for a, b, name in spans:
                if a <= line <= b and (best is None or a >= best[0]):
                    best = (a, name)
            return best[1] if best else None
        lines = src.split('\n')
        keep_nl = src.endswith('\n')
        toks = list(tokenize.generate_tokens(io.StringIO(src).readline))

        def emit(tok_idx_list, repl_list, op):
            """Replace the tokens (same line each) by new strings."""
            new = list(lines)
            for ti, rep in sorted(zip(tok_idx_list, repl_list), key=lambda x: -toks[x[0]].start[1]):
                t = toks[ti]
                if t.start[0] != t.end[0]:
                    return
                ln = t.start[0] - 1
                new[ln] = new[ln][:t.start[1]] + rep + new[ln][t.end[1]:]
            line = toks[tok_idx_list[0]].start[0]
            f = func_at(line)
            if f is None or line in skip:
                return
            if f.split('.')[-1] in ('__repr__',):
                return
            out.append({'file': path, 'line': line, 'op': op, 'func': f, 'text': '\n'.join(new)})

        for i, t in enumerate(toks):
            if t.type == tokenize.OP and t.string in CMP:
                for r in CMP[t.string]:
                    emit([i], [r], '%s -> %s' % (t.string, r))
            elif t.type == tokenize.OP and t.string in ('+', '-') and i > 0 and toks[i - 1].type in (tokenize.NAME, tokenize.NUMBER) \
                    or (t.type == tokenize.OP and t.string in ('+', '-') and i > 0 and toks[i - 1].string in (')', ']')):
                emit([i], ['-' if t.string == '+' else '+'], '%s -> %s' % (t.string, '-' if t.string == '+' else '+'))
            elif t.type == tokenize.OP and t.string in ('+=', '-='):
                emit([i], ['-=' if t.string == '+=' else '+='], '%s swapped' % t.string)
            elif t.type == tokenize.NAME and t.string in ('and', 'or'):
                emit([i], ['or' if t.string == 'and' else 'and'], '%s -> %s' % (t.string, 'or' if t.string == 'and' else 'and'))
            elif t.type == tokenize.NAME and t.string == 'not' and i + 1 < len(toks) and toks[i + 1].string != 'in' \
                    and not (i > 0 and toks[i - 1].string == 'is'):
                emit([i], [''], 'not removed')
            elif t.type == tokenize.NAME and t.string == 'is' and i + 1 < len(toks):
                if toks[i + 1].string == 'not':
                    emit([i + 1], [''], 'is not -> is')
                else:
                    emit([i], ['is not'], 'is -> is not')
            elif t.type == tokenize.NAME and t.string == 'in' and i > 0 and toks[i - 1].string == 'not':
                emit([i - 1], [''], 'not in -> in')
            elif t.type == tokenize.NAME and t.string == 'in' and i > 0 and toks[i - 1].string != 'not':
                # membership tests only (not the `in` of a for loop / comprehension)
                j = i - 1
                depth = 0
                is_for = False
                while j >= 0 and toks[j].start[0] >= t.start[0] - 3:
                    if toks[j].string in (')', ']', '}'):
                        depth += 1
                    elif toks[j].string in ('(', '[', '{'):
                        if depth == 0:
                            break
                        depth -= 1
                    elif toks[j].string == 'for' and depth == 0:
                        is_for = True
                        break
                    elif toks[j].string in ('if', 'and', 'or', 'not', 'return', '=', 'elif', 'while') and depth == 0:
                        break
                    j -= 1
                if not is_for:
                    emit([i], ['not in'], 'in -> not in')
            elif t.type == tokenize.NUMBER and re.fullmatch(r'\d+', t.string):
                n = int(t.string)
                emit([i], [str(n + 1)], 'int %d -> %d' % (n, n + 1))
                if n > 0:
                    emit([i], [str(n - 1)], 'int %d -> %d' % (n, n - 1))
            elif t.type == tokenize.NAME and t.string in ('True', 'False'):
                emit([i], ['False' if t.string == 'True' else 'True'], '%s flipped' % t.string)
            elif t.type == tokenize.NAME and t.string in ('break', 'continue'):
                emit([i], ['continue' if t.string == 'break' else 'break'], '%s swapped' % t.string)
            elif t.type == tokenize.STRING and t.string in TAGS:
                emit([i], [TAGS[t.string]], 'tag %s -> %s' % (t.string, TAGS[t.string]))
        # statement-level: drop call statements / raises / returns of a value inside loops
        for n in ast.walk(tree):
            if isinstance(n, ast.Expr) and isinstance(n.value, ast.Call) and n.lineno not in skip:
                name = ast.unparse(n.value.func)
                if name.startswith(('logger.', 'logging.', 'print', 'sys.stderr', 'sys.stdout')) and path != 'mosromgr/cli.py':
                    continue
                f = func_at(n.lineno)
                if f is None:
                    continue
                new = list(lines)
                indent = re.match(r'\s*', new[n.lineno - 1]).group(0)
                new[n.lineno - 1:n.end_lineno] = [indent + 'pass'] + [''] * (n.end_lineno - n.lineno)
                out.append({'file': path, 'line': n.lineno, 'op': 'statement dropped: %s(...)' % name[:40], 'func': f,
                            'text': '\n'.join(new)})
            elif isinstance(n, ast.Raise) and n.lineno not in skip:
                f = func_at(n.lineno)
                if f is None:
                    continue
                new = list(lines)
                indent = re.match(r'\s*', new[n.lineno - 1]).group(0)
                new[n.lineno - 1:n.end_lineno] = [indent + 'pass'] + [''] * (n.end_lineno - n.lineno)
                out.append({'file': path, 'line': n.lineno, 'op': 'raise dropped', 'func': f, 'text': '\n'.join(new)})
            elif isinstance(n, ast.If) and n.lineno not in skip:
                # condition forced (only simple one-line tests)
                f = func_at(n.lineno)
                if f is None or n.test.end_lineno != n.test.lineno:
                    continue
                for val in ('True', 'False'):
                    new = list(lines)
                    ln = new[n.lineno - 1]
                    new[n.lineno - 1] = ln[:n.test.col_offset] + val + ln[n.test.end_col_offset:]
                    out.append({'file': path, 'line': n.lineno, 'op': 'condition forced %s' % val, 'func': f,
                                'text': '\n'.join(new)})
    # de-duplicate identical texts, give IDs
    seen, res = set(), []
    for m in out:
        key = (m['file'], m['text'])
        if key in seen:
            continue
        seen.add(key)
        try:
            compile(m['text'], m['file'], 'exec')
        except SyntaxError:
            continue
        m['id'] = 'x%04d' % len(res)
        res.append(m)
    return res


def run_one(m, slot_dir, args):
    repo = os.path.join(slot_dir, 'repo')
    target = os.path.join(repo, m['file'])
    orig = open(os.path.join(REPO, m['file']), encoding='utf-8').read()
    open(target, 'w', encoding='utf-8').write(m['text'])
    env = dict(os.environ, PYTHONDONTWRITEBYTECODE='1')
    try:
        t = subprocess.run(['/venv/bin/python', '-B', '-m', 'pytest', '-q', '-x', '-p', 'no:cacheprovider'], cwd=repo, env=env,
                           capture_output=True, text=True, timeout=300)
        tests_ok = t.returncode == 0
        if not tests_ok:
            return '%s | %s:%d %s | %s | tests=failed | killed by the repository tests' % (m['id'], m['file'], m['line'], m['func'], m['op'])
        tried = []
        checks = checks_for(m['file'], m['func'])
        if args.all_checks:
            checks = checks + [c for c in ALL if c not in checks]
        for c in checks:
            ev = os.path.join(slot_dir, 'ev')
            shutil.rmtree(ev, ignore_errors=True)
            os.makedirs(ev)
            e2 = dict(env, VERIF_REPO=repo, VERIF_EVIDENCE_DIR=ev, VERIF_STOP_ON_FIRST='1', VERIF_COV='0')
            try:
                r = subprocess.run([os.path.join(HERE, 'check'), c, '--tier', 'quick', '--workers', str(args.workers)],
                                   cwd=HERE, env=e2, capture_output=True, text=True, timeout=1500)
                rc = r.returncode
            except subprocess.TimeoutExpired:
                rc = 2
            tried.append('%s=%d' % (c, rc))
            if rc == 1:
                first = [l for l in r.stdout.splitlines() if l.startswith('  #')][:1]
                return '%s | %s:%d %s | %s | tests=passed | CAUGHT by %s %s' % (
                    m['id'], m['file'], m['line'], m['func'], m['op'], c, (first[0][:160] if first else ''))
        return '%s | %s:%d %s | %s | tests=passed | SURVIVED (%s)' % (m['id'], m['file'], m['line'], m['func'], m['op'], ' '.join(tried))
    finally:
        open(target, 'w', encoding='utf-8').write(orig)


def main():
    ap = argparse.ArgumentParser()
    ap.add_argument('cmd', choices=['list', 'run'])
    ap.add_argument('--slots', type=int, default=4)
    ap.add_argument('--workers', type=int, default=4)
    ap.add_argument('--only', default=None)
    ap.add_argument('--limit', type=int, default=None)
    ap.add_argument('--stride', type=int, default=1, help='take every k-th mutant (sampling)')
    ap.add_argument('--offset', type=int, default=0)
    ap.add_argument('--out', default=os.path.join(HERE, 'mutants', 'SWEEP.txt'))
    ap.add_argument('--all-checks', action='store_true')
    a = ap.parse_args()
    ms = generate()
    if a.only:
        ms = [m for m in ms if re.search(a.only, '%s %s %s %s' % (m['id'], m['file'], m['func'], m['op']))]
    ms = ms[a.offset::a.stride]
    if a.limit:
        ms = ms[:a.limit]
    if a.cmd == 'list':
        for m in ms:
            print(m['id'], m['file'], m['line'], m['func'], '|', m['op'])
        print(len(ms), 'mutants', file=sys.stderr)
        return
    base = tempfile.mkdtemp(prefix='mutsweep-')
    slots = []
    try:
        for k in range(a.slots):
            d = os.path.join(base, 's%d' % k)
            os.makedirs(os.path.join(d, 'repo'))
            subprocess.run('git -C %s archive HEAD | tar -x -C %s' % (REPO, os.path.join(d, 'repo')), shell=True, check=True)
            slots.append(d)
        import queue
        free = queue.Queue()
        for d in slots:
            free.put(d)

        def job(m):
            d = free.get()
            try:
                return run_one(m, d, a)
            except Exception as e:
                return '%s | %s:%d | %s | ERROR %s' % (m['id'], m['file'], m['line'], m['op'], e)
            finally:
                free.put(d)
        with open(a.out, 'a') as f, ThreadPoolExecutor(a.slots) as ex:
            for line in ex.map(job, ms):
                print(line, flush=True)
                f.write(line + '\n')
                f.flush()
    finally:
        shutil.rmtree(base, ignore_errors=True)


if __name__ == '__main__':
    main()
