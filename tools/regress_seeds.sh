#!/bin/sh
# tools/regress_seeds.sh [pattern] -> seeded/REGRESSION.txt
# Every stored seeded change again, against the machinery as it is now (scratch copies only):
# patch applies to /repo HEAD, repository tests pass, the check of its property reports it.
# Uses the early-stop mode of the mutation tools (a worker stops at its first violation).
cd /verif
OUT=seeded/REGRESSION.txt
: > "$OUT.tmp"
for d in seeded/*${1:-}*/; do
  n=$(basename "$d"); p=${n%-*}
  W=$(mktemp -d /tmp/regr-XXXXXX)
  mkdir -p "$W/repo" "$W/ev"
  git -C /repo archive HEAD | tar -x -C "$W/repo"
  if ! ( cd "$W/repo" && git init -q . >/dev/null 2>&1 && git apply "/verif/$d/patch.diff" ) 2>/dev/null; then
    echo "$n | PATCH-DOES-NOT-APPLY" | tee -a "$OUT.tmp"; rm -rf "$W"; continue
  fi
  t=$(cd "$W/repo" && /venv/bin/python -B -m pytest -q -x -p no:cacheprovider 2>&1 | tail -1)
  props=$p
  [ "$n" = "C07-k" ] && props="C11"
  VERIF_REPO="$W/repo" VERIF_EVIDENCE_DIR="$W/ev" VERIF_STOP_ON_FIRST=1 VERIF_COV=0 ./check $props --tier quick >/dev/null 2>&1; rc=$?
  case "$rc" in 1) V=CAUGHT;; 0) V=MISSED;; 2) V=INCONCLUSIVE;; *) V="?($rc)";; esac
  echo "$n | tests: $t | ./check $props: $V" | tee -a "$OUT.tmp"
  rm -rf "$W"
done
mv "$OUT.tmp" "$OUT"
