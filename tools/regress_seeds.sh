#!/bin/sh
# tools/regress_seeds.sh [pattern] -> seeded/REGRESSION.txt   (OUT=<file> to shard: patterns such as "C0[1-7]-")
# Every stored seeded change again, against the machinery AND the repository as they are now (scratch copies
# only): the patch applies to /repo HEAD, the repository tests pass, its demo still fails with the change
# (a change whose demo now passes was NEUTRALISED by a later repair of /repo), and the check of its property
# reports it.  Uses the early-stop mode of the mutation tools (a worker stops at its first violation).
cd /verif
OUT=${OUT:-seeded/REGRESSION.txt}
: > "$OUT.tmp"
for d in seeded/*${1:-}*/; do
  n=$(basename "$d"); p=${n%-*}
  W=$(mktemp -d /tmp/regr-XXXXXX)
  mkdir -p "$W/repo" "$W/ev"
  git -C /repo archive HEAD | tar -x -C "$W/repo"
  if ! ( cd "$W/repo" && git init -q . >/dev/null 2>&1 && git apply "/verif/$d/patch.diff" ) 2>/dev/null; then
    echo "$n | PATCH-DOES-NOT-APPLY" | tee -a "$OUT.tmp"; rm -rf "$W"; continue
  fi
  t=$(cd "$W/repo" && /venv/bin/python -B -m pytest -q -x -p no:cacheprovider 2>&1 | tail -1)
  (cd "$W/repo" && PYTHONPATH="$W/repo" timeout 180 /venv/bin/python -B "/verif/$d/demo.py" >/dev/null 2>&1); dm=$?
  props=$p
  [ "$n" = "C07-k" ] && props="C11"
  VERIF_REPO="$W/repo" VERIF_EVIDENCE_DIR="$W/ev" VERIF_STOP_ON_FIRST=1 VERIF_COV=0 ./check $props --tier quick >/dev/null 2>&1; rc=$?
  case "$rc" in 1) V=CAUGHT;; 0) V=MISSED;; 2) V=INCONCLUSIVE;; *) V="?($rc)";; esac
  note=""
  if [ "$V" != CAUGHT ]; then
    if [ "$dm" = 0 ]; then note=" - NEUTRALISED: its own demo passes with the change on this HEAD (a later fix: commit removed the trigger)"
    elif grep -q "TOLERATED" "$d/meta.json"; then note=" - TOLERATED by design (see meta.json)"; fi
  fi
  echo "$n | tests: $t | demo rc with the change: $dm | ./check $props: $V$note" | tee -a "$OUT.tmp"
  rm -rf "$W"
done
mv "$OUT.tmp" "$OUT"
