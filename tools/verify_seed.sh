#!/bin/sh
# tools/verify_seed.sh <seed-dir> <Cxx> [more props]   e.g. tools/verify_seed.sh /tmp/seed-C13/a C13
# Confirms a sub-agent's seeded change independently (scratch copies only, /repo untouched):
#  clean tree: repo tests pass, demo exits 0;  patched tree: repo tests pass, demo exits 1;
# then runs the named checks (quick tier, or TIER=thorough) against the patched copy.
set -u
D=$(realpath "$1"); shift
W=$(mktemp -d /tmp/seedv-XXXXXX)
trap 'rm -rf "$W"' EXIT
mkdir -p "$W/clean" "$W/mut"
git -C /repo archive HEAD | tar -x -C "$W/clean"
git -C /repo archive HEAD | tar -x -C "$W/mut"
( cd "$W/mut" && git init -q . >/dev/null 2>&1 && git apply "$D/patch.diff" ) || { echo "seed: PATCH-DOES-NOT-APPLY"; exit 3; }
tc=$(cd "$W/clean" && /venv/bin/python -B -m pytest -q -p no:cacheprovider 2>&1 | tail -1)
tm=$(cd "$W/mut" && /venv/bin/python -B -m pytest -q -p no:cacheprovider 2>&1 | tail -1)
(cd "$W/clean" && PYTHONPATH="$W/clean" timeout 120 /venv/bin/python -B "$D/demo.py" >/dev/null 2>&1); dc=$?
(cd "$W/mut" && PYTHONPATH="$W/mut" timeout 120 /venv/bin/python -B "$D/demo.py" >"$W/demo.out" 2>&1); dm=$?
echo "seed: clean_tests=[$tc] patched_tests=[$tm] demo_clean_rc=$dc demo_patched_rc=$dm"
tail -3 "$W/demo.out" | cut -c1-300 | sed 's/^/  demo> /'
mkdir -p "$W/ev"
cd /verif
for p in "$@"; do
  OUT=$(VERIF_REPO="$W/mut" VERIF_EVIDENCE_DIR="$W/ev" ./check "$p" --tier "${TIER:-quick}" 2>&1); rc=$?
  echo "check: $p rc=$rc :: $(printf '%s\n' "$OUT" | tail -1 | cut -c1-170)"
  printf '%s\n' "$OUT" | grep '^  #' | head -3 | cut -c1-360
done
